#!/bin/bash
# usage: repro.sh /path/to/penne
# a.pn: private `word64 Pair` used in the signature of `pub fn pair_sum`.
# main.pn: imports a.pn and has its own, different, private `struct Pair`.
# The call pair_sum(p) is accepted; caller and callee disagree about the
# type (and the ABI) of the argument.
P=${1:?usage: repro.sh /path/to/penne}
P=$(readlink -f "$P")
cd "$(dirname "$0")"
export RUST_BACKTRACE=0
t=$(mktemp -d)
trap 'rm -rf $t' EXIT

"$P" run --silent --color=never --backend cat main.pn a.pn > $t/full.ll 2> $t/err.txt
if [ $? -ne 0 ]; then
	echo "rejected at compile time:"; grep -a -m3 'Error' $t/err.txt
	echo "no defect observed"
	exit 0
fi
echo "accepted without any diagnostic; caller and callee in the linked IR:"
grep -a 'call.*@pair_sum\|define.*@pair_sum' $t/full.ll
results=""
for i in 1 2; do
	r=$("$P" run --color=never main.pn a.pn 2>&1 | grep -a '^s=')
	echo "penne run main.pn a.pn: $r"
	results="$results $r"
done
for O in -O0 -O2; do
	"$P" build --silent --color=never --backend-args=$O -o $t/a.out main.pn a.pn >/dev/null 2>&1
	r=$($t/a.out | grep -a '^s=')
	echo "penne build $O:          $r"
	results="$results $r"
done
echo "DEFECT: a name in the signature of an imported pub function was bound to a private type of the importer (expected: a diagnostic, or s=3 if a.pn's Pair could be constructed)"
exit 1
