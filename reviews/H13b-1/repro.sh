#!/bin/sh
# usage: repro.sh /path/to/penne
# Exits 1 when the defect shows: a compilation fails (exit status 1,
# "Error: compilation failed") without a single [Ennn]/[Lnnnn] report.
PENNE="$1"
HERE="$(cd "$(dirname "$0")" && pwd)"
export RUST_BACKTRACE=0
defect=0
for f in silent_array.pn silent_array_declared.pn silent_address.pn silent_forward_prepass.pn control_reported.pn
do
	for colour in never always
	do
		out="$("$PENNE" emit --color=$colour "$HERE/$f" 2>&1)"
		status=$?
		reports=$(printf '%s\n' "$out" | grep -c '\[[EL][0-9][0-9]*\]')
		echo "$f --color=$colour: exit status $status, coded reports: $reports"
		if [ "$status" -ne 0 ] && [ "$reports" -eq 0 ]
		then
			echo "    DEFECT: failed without any coded, located diagnostic; complete output was:"
			printf '%s\n' "$out" | sed 's/^/    | /'
			defect=1
		fi
	done
done
exit $defect
