#!/bin/bash
# usage: repro.sh /path/to/penne   (alpha build)
# Exits 1 when the defect shows, 0 when it does not.
PENNE="$1"
[ -x "$PENNE" ] || { echo "usage: $0 /path/to/penne"; exit 2; }
export RUST_BACKTRACE=0
cd "$(dirname "$0")"
defect=0
run() { "$PENNE" emit --color=never --arrows=ascii "$@" 2>&1 | grep -v '^$'; }

check() # file code "text of the primary label" expected_line expected_col
{
	out=$(run "$1"); echo "$out"
	header=$(echo "$out" | grep -o ",-\[ $1:[0-9]*:[0-9]* \]" | head -1)
	line=$(echo "$header" | sed 's/.*:\([0-9]*\):\([0-9]*\) \]/\1/')
	col=$(echo "$header" | sed 's/.*:\([0-9]*\):\([0-9]*\) \]/\2/')
	if echo "$out" | grep -q "^\[$2\]" && { [ "$line" != "$4" ] || [ "$col" != "$5" ]; }
	then
		echo "DEFECT: [$2] header says $1:$line:$col, but the primary label ($3) starts at $1:$4:$5"
		defect=1
	fi
	echo
}

# E550: the message is "Invalid operand type", the primary (first, yellow) label is the operand
# `true` at 3:10; the header names the operator `<<` at 4:3.
check e550.pn E550 'This has type `bool`.' 3 10
# E551: primary label is the left operand `1i32` at 3:13; header names `<<` at 4:3,
# and the operator is even pushed into a separate source group that repeats 4:3.
check e551.pn E551 'This has type `i32`.' 3 13
# Same thing on one line: header column is that of the operator (15), not of the operand (10).
check e550_oneline.pn E550 'This has type `bool`.' 3 10
exit $defect
