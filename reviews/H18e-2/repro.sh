#!/bin/sh
# usage: repro.sh /path/to/penne
# (a) `penne run --silent` neither shows the program's exit status nor reflects
#     it in its own status: the status of the program is lost.
# (b) `penne --silent` on a failing compilation still writes two blank lines to
#     stdout although --silent means "Show no output".
PENNE=${1:?path of penne binary}
PENNE=$(readlink -f "$PENNE")
HERE=$(cd "$(dirname "$0")" && pwd)
export RUST_BACKTRACE=0
WORK=$(mktemp -d)
trap 'rm -rf "$WORK"' EXIT
cd "$WORK" || exit 2
cp "$HERE/ret3.pn" "$HERE/bad.pn" .
DEFECT=0

"$PENNE" run --silent ret3.pn >out.txt 2>err.txt
RC=$?
echo "(a) penne run --silent ret3.pn: exit=$RC stdout=$(wc -c <out.txt) bytes stderr=$(wc -c <err.txt) bytes"
"$PENNE" run --color=never ret3.pn 2>/dev/null | grep '^Output:' | sed 's/^/    without --silent: /'
if [ $RC -eq 0 ] && ! grep -q 3 out.txt err.txt; then
	echo "    DEFECT: the program ended with status 3; that is neither shown nor returned"
	DEFECT=1
fi

"$PENNE" build --silent bad.pn >out.txt 2>err.txt
RC=$?
printf '%s\n' "(b) penne build --silent bad.pn: exit=$RC stdout=$(wc -c <out.txt) bytes: $(od -An -c out.txt | tr -s ' ')"
if [ -s out.txt ]; then
	echo "    DEFECT: --silent run wrote to stdout"
	DEFECT=1
fi
exit $DEFECT
