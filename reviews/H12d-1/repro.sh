#!/bin/sh
# usage: repro.sh /path/to/penne
# A pub constant whose value raises a lint (L1142) is linted again in every
# module that imports it: the split program prints more warnings than the
# single-file program it was split from.
PENNE="$1"
cd "$(dirname "$0")" || exit 2
export RUST_BACKTRACE=0
count() { "$PENNE" run --color=never --arrows=ascii "$@" 2>&1 | grep -c '\[L1142\]'; }
result() { "$PENNE" run --color=never --arrows=ascii "$@" 2>&1 | grep '^Output:'; }
single=$(count single.pn)
echo "single.pn: $single warning(s) L1142, $(result single.pn)"
bad=0
for order in "main.pn get.pn consts.pn" "main.pn consts.pn get.pn" \
	"get.pn main.pn consts.pn" "get.pn consts.pn main.pn" \
	"consts.pn main.pn get.pn" "consts.pn get.pn main.pn"
do
	n=$(count $order)
	echo "$order: $n warning(s) L1142, $(result $order)"
	[ "$n" != "$single" ] && bad=1
done
echo "where the warnings of the split are printed (one 'Linting' per module):"
"$PENNE" emit --color=never --arrows=ascii main.pn get.pn consts.pn 2>&1 | grep -E '^Linting|\[L1142\]|,-\['
if [ $bad = 1 ]; then echo "DEFECT: the split program prints other diagnostics than the single file"; exit 1; fi
echo "no defect"; exit 0
