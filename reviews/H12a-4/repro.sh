#!/bin/sh
# usage: repro.sh /path/to/penne   (alpha build)
# exits 1 when the defect shows, 0 when it does not
PENNE=${1:?usage: repro.sh /path/to/penne}
cd "$(dirname "$0")" || exit 2
export RUST_BACKTRACE=0
bad=0

run() { "$PENNE" run --color=never "$@" 2>&1 | grep -v '^$'; }
result() { run "$@" | grep -E '^\[E[0-9]+\]|^Output:' | head -1; }

echo "## case 1: an unrelated file on the command line re-targets another module's import"
echo "lib/b.pn has: import \"util.pn\";  (its sibling lib/util.pn, ID = 2).  util.pn in the current directory has ID = 1."
echo "amb_main.pn imports lib/b.pn and returns b_id(), i.e. the ID that lib/b.pn sees."
r1=$(result amb_main.pn lib/b.pn lib/util.pn)
echo "penne run amb_main.pn lib/b.pn lib/util.pn          -> $r1"
for order in "amb_main.pn lib/b.pn lib/util.pn util.pn" "util.pn amb_main.pn lib/b.pn lib/util.pn" "lib/util.pn util.pn lib/b.pn amb_main.pn"; do
	r2=$(result $order)
	echo "penne run $order -> $r2"
	if [ "$r2" != "$r1" ]; then bad=1; fi
done

echo
echo "## case 2: whether an import resolves depends on how the same path is spelled on the command line"
echo "plain.pn has: import \"common/c.pn\";   top.pn has: import \"./common/c.pn\";   app/main.pn has: import \"../common/c.pn\";"
ok=0; ko=0
try()
{
	r=$(result "$@")
	echo "penne run $* -> $r"
	case "$r" in
		"Output: 9") ok=$((ok+1));;
		*) ko=$((ko+1));;
	esac
}
try plain.pn common/c.pn
try plain.pn ./common/c.pn
try ./plain.pn ./common/c.pn
try plain.pn "$PWD/common/c.pn"
try top.pn ./common/c.pn
try top.pn common/c.pn
try app/main.pn app/../common/c.pn
try app/main.pn common/c.pn
if [ $ok -gt 0 ] && [ $ko -gt 0 ]; then bad=1; fi

echo
if [ $bad = 1 ]; then
	echo "DEFECT: import targets are matched textually against the command line"
	exit 1
fi
echo "no defect observed"
exit 0
