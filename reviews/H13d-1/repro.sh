#!/bin/bash
# usage: repro.sh /path/to/penne
# Exits 1 when the compiler rejects a program with a message that carries neither an
# error code nor a location (the defect), 0 otherwise.
P=${1:?path of the penne binary}
cd "$(dirname "$0")"
export RUST_BACKTRACE=0
bad=0
for f in array_length_2_32.pn named_length_2_32.pn nested_length_2_64_minus_1.pn array_length_2_32_minus_1.pn
do
	err=$("$P" emit --color=never "$f" 2>&1 >/dev/null)
	rc=$?
	echo "== $f: exit status $rc"
	echo "$err" | sed 's/^/   | /'
	if [ $rc -ne 0 ]
	then
		if echo "$err" | grep -Eq '^\[[EL][0-9]+\]' && echo "$err" | grep -Fq "$f:"
		then
			echo "   rejected with a coded, located diagnostic"
		else
			echo "   DEFECT: rejected without any error code and without any location"
			bad=1
		fi
	else
		echo "   accepted"
	fi
done
exit $bad
