#!/bin/sh
# usage: repro.sh /path/to/penne
# lib/a.pn says `import "util.pn";` and means its sibling lib/util.pn (that is
# how it resolves when no other util.pn is named). Naming an unrelated
# ./util.pn on the command line silently redirects the import of lib/a.pn.
PENNE="$1"
cd "$(dirname "$0")" || exit 2
export RUST_BACKTRACE=0
run() { "$PENNE" run --color=never --arrows=ascii "$@" 2>&1 | grep -E '^Output:|\[E[0-9]+\]|named' | tr '\n' ' '; }
base=$(run main.pn lib/a.pn lib/util.pn)
echo "main.pn lib/a.pn lib/util.pn            -> $base"
bad=0
for order in "main.pn lib/a.pn lib/util.pn util.pn" "util.pn main.pn lib/a.pn lib/util.pn" \
	"lib/util.pn util.pn lib/a.pn main.pn" "lib/a.pn lib/util.pn main.pn util.pn"
do
	r=$(run $order)
	echo "$order -> $r"
	[ "$r" != "$base" ] && bad=1
done
# same with a ./util.pn that has no K at all: now lib/a.pn is rejected
cp util.pn util.pn.keep; cp other.pn util.pn
r=$(run main.pn lib/a.pn lib/util.pn util.pn)
cp util.pn.keep util.pn; rm util.pn.keep
echo "with an unrelated ./util.pn (no K):       -> $r"
[ "$r" != "$base" ] && bad=1
if [ $bad = 1 ]; then echo "DEFECT: adding an unrelated module changed what lib/a.pn imports"; exit 1; fi
echo "no defect"; exit 0
