#!/bin/sh
# usage: repro.sh /path/to/penne
# `penne emit --wasm --out-dir D` must leave, for every module, a .pn.ll with
# that module's IR *for the wasm target*. Observed: every per-module file names
# the host triple (with the wasm32 data layout), and LLVM warns on stderr about
# it, even under --silent.
PENNE="$1"
HERE="$(cd "$(dirname "$0")" && pwd)"
export RUST_BACKTRACE=0
OUT="$(mktemp -d)"
trap 'rm -rf "$OUT"' EXIT
cd "$HERE" || exit 2
bad=0

echo "== single file: penne emit --wasm --silent --out-dir OUT five.pn"
"$PENNE" emit --wasm --silent --color=never --out-dir "$OUT/one" five.pn >"$OUT/one.stdout" 2>"$OUT/one.stderr"
rc=$?
echo "exit status: $rc"
echo "stderr:"; sed 's/^/    /' "$OUT/one.stderr"
[ $rc -eq 0 ] || { echo "unexpected: emit failed"; exit 2; }

echo "== two files: penne emit --wasm --silent --out-dir OUT app.pn lib.pn"
"$PENNE" emit --wasm --silent --color=never --out-dir "$OUT/two" app.pn lib.pn >"$OUT/two.stdout" 2>"$OUT/two.stderr"
rc=$?
echo "exit status: $rc"
echo "stderr:"; sed 's/^/    /' "$OUT/two.stderr"
[ $rc -eq 0 ] || { echo "unexpected: emit failed"; exit 2; }

echo "== what penne hands to the backend under build --wasm (linked IR), for comparison"
"$PENNE" emit --wasm --verbose --color=never five.pn 2>/dev/null | sed -n '/^Linking modules/,$p' | grep '^target' | sed 's/^/    combined: /'

for f in "$OUT/one/five.pn.ll" "$OUT/two/app.pn.ll" "$OUT/two/lib.pn.ll"
do
	if [ ! -f "$f" ]; then echo "MISSING $f"; bad=1; continue; fi
	triple="$(grep '^target triple' "$f")"
	layout="$(grep '^target datalayout' "$f")"
	echo "$(basename "$f"): $triple ; $layout"
	case "$triple" in
		*wasm32*) ;;
		*) echo "  DEFECT: per-module IR emitted under --wasm does not name the wasm target"; bad=1;;
	esac
done

if grep -q 'different target triples' "$OUT/one.stderr" "$OUT/two.stderr"
then
	echo "DEFECT: LLVM warns that the modules penne made disagree about their target (shown even with --silent)"
	bad=1
fi

if command -v llc >/dev/null 2>&1 && command -v file >/dev/null 2>&1
then
	llc -filetype=obj "$OUT/one/five.pn.ll" -o "$OUT/five.o" 2>/dev/null && echo "llc five.pn.ll -> $(file -b "$OUT/five.o")"
fi

if [ $bad -ne 0 ]; then echo "RESULT: defect shows"; exit 1; fi
echo "RESULT: defect does not show"; exit 0
