#!/bin/bash
# Finding 2: when SIGCHLD is ignored in the environment penne is started from
# (the disposition SIG_IGN is inherited through exec), penne reports a failure
# although the backend ran and succeeded; `penne run` never shows the exit
# status of the program.
# usage: repro.sh /path/to/penne
P="$1"
[ -x "$P" ] || { echo "usage: $0 /path/to/penne"; exit 2; }
here="$(cd "$(dirname "$0")" && pwd)"
cd "$here" || exit 2
export RUST_BACKTRACE=0
tmp="$(mktemp -d)"
trap 'rm -rf "$tmp"' EXIT
defect=0

echo "== penne run five.pn (normal)"
"$P" run --color=never five.pn >"$tmp/n.out" 2>"$tmp/n.err"; rc=$?
echo "exit=$rc"; grep -h 'Output\|Done\|Error' "$tmp/n.out" "$tmp/n.err" | sed 's/^/    | /'

echo "== env --ignore-signal=CHLD penne run five.pn"
env --ignore-signal=CHLD "$P" run --color=never five.pn >"$tmp/i.out" 2>"$tmp/i.err"; rc=$?
echo "exit=$rc"; grep -h 'Output\|Done\|Error' "$tmp/i.out" "$tmp/i.err" | sed 's/^/    | /'
if [ $rc -ne 0 ] || ! grep -q '^Output: 5$' "$tmp/i.out"
then
	echo "  DEFECT: lli ran the program (exit status 5) but penne shows no 'Output: 5' and fails"
	defect=1
fi

echo "== env --ignore-signal=CHLD penne run hello.pn (the program's output is passed through, then failure)"
env --ignore-signal=CHLD "$P" run --color=never hello.pn >"$tmp/h.out" 2>"$tmp/h.err"; rc=$?
echo "exit=$rc"; grep -h 'Hello world\|Output\|Done\|Error' "$tmp/h.out" "$tmp/h.err" | sed 's/^/    | /'
if [ $rc -ne 0 ] && grep -q 'Hello world' "$tmp/h.out"
then
	echo "  DEFECT: the program ran to completion, penne exits $rc"
	defect=1
fi

# build, with a backend that does not itself need SIGCHLD (clang does, and
# fails on its own under SIG_IGN, which is not penne's fault).
cat >"$tmp/backend.sh" <<'EOF'
#!/bin/sh
# a stand-in for `clang -x ir - -o OUT`: store what is piped in, succeed
while [ $# -gt 1 ]; do [ "$1" = "-o" ] && out="$2"; shift; done
cat >"$out" && exit 0
EOF
chmod +x "$tmp/backend.sh"
echo "== env --ignore-signal=CHLD penne build --backend backend.sh -o OUT five.pn"
env --ignore-signal=CHLD "$P" build --color=never --backend "$tmp/backend.sh" -o "$tmp/five.out" five.pn >"$tmp/b.out" 2>"$tmp/b.err"; rc=$?
echo "exit=$rc"; grep -h 'Done\|Error' "$tmp/b.out" "$tmp/b.err" | sed 's/^/    | /'
if [ $rc -ne 0 ] && grep -q 'define.*@main' "$tmp/five.out"
then
	echo "  DEFECT: the backend succeeded and the artefact is complete ($(wc -c <"$tmp/five.out") bytes), penne exits $rc"
	defect=1
fi
"$P" build --color=never --backend "$tmp/backend.sh" -o "$tmp/five2.out" five.pn >/dev/null 2>&1
echo "(same command without SIG_IGN: exit=$?)"

exit $defect
