#!/bin/bash
# usage: repro.sh /path/to/penne
# Two source files whose names are not valid UTF-8 and differ only in the invalid byte.
# A diagnostic for the first file is rendered against the text of the second file (or
# without any location). Exits 1 when that shows, 0 otherwise.
P=$(readlink -f "${1:?path of the penne binary}")
here=$(cd "$(dirname "$0")" && pwd)
export RUST_BACKTRACE=0
T=$(mktemp -d)
cd "$T"
A=$(printf 'mod\xfe.pn')    # holds the error, line 6: var x = undefined_thing;
B=$(printf 'mod\xff.pn')    # a correct program
bad=0

echo "== reference: the first file alone"
cp "$here/first.pn.txt" "$A"
"$P" emit --color=never "$A" 2>&1 >/dev/null | sed 's/^/   | /'

for variant in long short
do
	echo "== both files, second file is the $variant one:  penne emit mod\\xfe.pn mod\\xff.pn"
	cp "$here/second_$variant.pn.txt" "$B"
	"$P" emit --color=never "$A" "$B" 2>err.txt >/dev/null
	echo "   exit status $?"
	sed 's/^/   | /' err.txt
	if grep -q '^\[E402\]' err.txt
	then
		if grep -Eq ':6:10 \]' err.txt && grep -Eq '^ +6 │ +var x = undefined_thing;' err.txt
		then
			echo "   location and quoted text are those of the first file: fine"
		else
			echo "   DEFECT: E402 is not shown at line 6, column 10 on 'var x = undefined_thing;'"
			bad=1
		fi
	fi
done
cd /
rm -rf "$T"
exit $bad
