#!/bin/bash
# usage: repro.sh /path/to/penne
# A module that imports a pub declaration named like the C function behind a
# builtin (`pub extern fn abort();`, as in penne's own vendor:libc/stdlib.pn)
# and uses that builtin (`panic!`, `abort!`) no longer links.
P=${1:?usage: repro.sh /path/to/penne}
P=$(readlink -f "$P")
cd "$(dirname "$0")"
export RUST_BACKTRACE=0
t=$(mktemp -d)
trap 'rm -rf $t' EXIT
defect=0

try() { # label files...
	local label=$1; shift
	local out
	out=$("$P" run --color=never "$@" 2>&1)
	local line=$(echo "$out" | grep -a -m1 '^ok$\|Symbols not found\|Error')
	echo "penne run   [$label]: ${line:-?}  ($(echo "$out" | grep -a '^Output'))"
	local run_ok=0; echo "$out" | grep -aq '^ok$' && run_ok=1
	rm -f $t/a.out
	local b
	b=$("$P" build --silent --color=never -o $t/a.out "$@" 2>&1)
	local build_ok=0
	if [ -x $t/a.out ]; then
		echo "penne build [$label]: $($t/a.out 2>&1 | head -1) (exit $?)"; build_ok=1
	else
		echo "penne build [$label]: FAILED: $(echo "$b" | grep -a -m1 'undefined reference\|Error')"
	fi
	echo "   declarations of abort in the linked IR: $("$P" run --silent --backend cat "$@" 2>/dev/null | grep -a 'declare.*@abort' | tr '\n' ';')"
	last_ok=$((run_ok & build_ok))
}

try "control.pn (own extern declarations, no import)" control.pn
control_ok=$last_ok
try "main.pn + vendor:libc (import \"vendor:libc/stdlib.pn\")" main.pn vendor:libc
[ $control_ok = 1 ] && [ $last_ok = 0 ] && defect=1
try "client.pn + mylib.pn (user library with pub extern fn abort)" client.pn mylib.pn
[ $control_ok = 1 ] && [ $last_ok = 0 ] && defect=1
try "mylib.pn + client.pn (other order)" mylib.pn client.pn
[ $control_ok = 1 ] && [ $last_ok = 0 ] && defect=1

try "printer.pn + posix.pn (pub extern fn write, importer uses print!)" printer.pn posix.pn
echo "$("$P" run --color=never printer.pn posix.pn 2>&1 | grep -a -m1 'Symbols not found')"
if "$P" run --color=never printer.pn posix.pn 2>&1 | grep -aq 'Symbols not found'; then defect=1; fi

echo "modes_client.pn + modes.pn (pub const write: i32 = 1; importer uses print!): $("$P" run --color=never modes_client.pn modes.pn 2>&1 | grep -a -m1 'Symbols not found\|^mode')"
if "$P" run --color=never modes_client.pn modes.pn 2>&1 | grep -aq 'Symbols not found'; then defect=1; fi

if [ $defect = 1 ]; then
	echo "DEFECT: importing a declaration of abort breaks the panic!/abort! builtins of the importing module (unresolved symbol abort.1)"
	exit 1
fi
echo "no defect observed"
exit 0
