#!/bin/bash
# usage: repro.sh /path/to/penne
# Every section of a report starts with a header "[ file:LINE:COL ]" and is
# followed by numbered source lines. Exits 1 when a header names a LINE that
# is not among the source lines shown beneath it.
P=$(readlink -f "${1:?path to penne binary}")
cd "$(dirname "$0")"
export RUST_BACKTRACE=0
bad=0
for f in loop_in_branch.pn return_mismatch.pn
do
	for cfg in "--arrows=ascii" "--arrows=unicode"
	do
		"$P" emit --color=never $cfg "$f" 2>&1 |
		sed 's/│/|/g; s/╭─\[/,-[/; s/├─\[/|-[/' |
		awk -v file="$f" -v cfg="$cfg" '
			function flush() {
				if (hdr != "" && !(hline in seen)) {
					printf "%s %s: header \"%s\" is followed by source line(s)%s, line %s is not shown under it\n", file, cfg, hdr, shown, hline
					found = 1
				}
				hdr = ""; shown = ""; delete seen
			}
			/^\[[EL][0-9]+\]/ { flush(); code = $1 }
			/^ *[,|]-\[ .*:[0-9]+:[0-9]+ \]/ {
				flush()
				hdr = $0; sub(/^ *[,|]-\[ /, "", hdr); sub(/ \]$/, "", hdr)
				n = split(hdr, parts, ":"); hline = parts[n-1]
				hdr = code " " hdr
				next
			}
			/^ *[0-9]+ \|/ { l = $1; seen[l] = 1; shown = shown " " l }
			END { flush(); exit found }
		'
		[ $? = 0 ] || bad=1
	done
done
exit $bad
