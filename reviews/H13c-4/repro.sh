#!/bin/bash
# usage: repro.sh /path/to/penne   (alpha build)
# Exits 1 when the defect shows, 0 when it does not.
PENNE="$1"
[ -x "$PENNE" ] || { echo "usage: $0 /path/to/penne"; exit 2; }
export RUST_BACKTRACE=0
cd "$(dirname "$0")"
run() { "$PENNE" emit --color=never --arrows=ascii "$@" 2>&1 | grep -v '^$'; }

echo "### three labels 'foo:' on lines 4, 6 and 8"
out=$(run three_labels.pn); echo "$out"
headers=$(echo "$out" | grep -A1 '^\[E420\]' | grep -o 'three_labels\.pn:[0-9]*:[0-9]*' | sort | uniq -c)
echo
echo "positions of the E420 diagnostics:"; echo "$headers"
echo
echo "### for comparison: three variables 'x' on lines 3, 4 and 5 (E422)"
run three_variables.pn | grep -A1 '^\[E422\]' | grep -o 'three_variables\.pn:[0-9]*:[0-9]*'
echo
n=$(echo "$out" | grep -c '^\[E420\]')
at8=$(echo "$out" | grep -A1 '^\[E420\]' | grep -c 'three_labels\.pn:8:2')
at6=$(echo "$out" | grep -A1 '^\[E420\]' | grep -c 'three_labels\.pn:6:2')
if [ "$n" = 2 ] && [ "$at8" = 2 ] && [ "$at6" = 0 ]
then
	echo "DEFECT: both E420 diagnostics are located at 8:2; the duplicate on line 6 is never"
	echo "        the location of a diagnostic (it only shows up as 'Previously defined here')."
	exit 1
fi
exit 0
