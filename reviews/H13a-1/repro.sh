#!/bin/bash
# Usage: repro.sh /path/to/penne
# Exits 1 when the defect shows (reported line differs from the LF-based line
# of the offending token), 0 otherwise.
P=${1:?path to penne binary}
cd "$(dirname "$0")" || exit 2
export RUST_BACKTRACE=0
bad=0
for f in base.pn comment_ff.pn comment_vt.pn comment_nel.pn comment_ls.pn comment_ps.pn comment_cr.pn string_ls.pn line_builtin_err.pn
do
	# The offending text in every file is the (only) word `true`.
	expected=$(python3 - "$f" <<'PY'
import sys
data = open(sys.argv[1], encoding='utf8', newline='').read()
for i, line in enumerate(data.split('\n')):
    if 'true' in line:
        print(f"{i+1}:{line.index('true')+1}")
        break
PY
)
	header=$("$P" emit --color=never --arrows=ascii "$f" 2>&1 | grep -m1 -o -- "-\[ $f:[0-9]*:[0-9]* \]" | sed -e "s/-\[ $f://" -e 's/ \]//')
	shown=$("$P" emit --color=never --arrows=ascii "$f" 2>&1 | grep -m1 -E '^ *[0-9]+ \| ')
	if [ "$expected" == "$header" ]
	then
		echo "ok       $f: offending text at $expected, reported $header"
	else
		echo "MISMATCH $f: offending text at $expected (LF-based line:column), reported $header"
		echo "         snippet shown: $shown"
		bad=1
	fi
done
# The compiler's own idea of the line number (builtin line!()) for comparison.
if command -v lli >/dev/null
then
	n=$("$P" run --color=never line_builtin.pn 2>/dev/null | grep -E '^[0-9]+$')
	echo "line!() on physical line 4 of line_builtin.pn evaluates to: $n"
	echo "(the diagnostic for the same physical line in line_builtin_err.pn is listed above)"
fi
exit $bad
