#!/bin/bash
# usage: repro.sh /path/to/penne
# Exits 1 when penne dies of a stack overflow (no coded diagnostic) on a
# modestly sized expression, 0 otherwise.
P=$(readlink -f "${1:?path to penne binary}")
cd "$(dirname "$0")"
export RUST_BACKTRACE=0
bad=0
# control: the same shape with 20 terms compiles
"$P" emit --color=never sum20.pn >/dev/null 2>control.err
echo "sum20.pn (control): exit $?"
for f in sum101.pn paren80.pn if30.pn sum1201.pn
do
	for run in 1 2
	do
		"$P" emit --color=never "$f" >out.txt 2>err.$run.txt
		rc=$?
		echo "$f run $run: exit $rc; coded diagnostics: $(grep -c '^\[[EL][0-9]*\]' err.$run.txt); stderr: $(tr '\n' ' ' < err.$run.txt | cut -c1-120)"
		if [ $rc -ge 100 ]; then bad=1; fi
	done
	if ! cmp -s err.1.txt err.2.txt; then echo "$f: stderr text differs between the two runs"; fi
done
rm -f out.txt err.1.txt err.2.txt control.err
exit $bad
