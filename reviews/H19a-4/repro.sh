#!/bin/bash
# Finding 4: absurd but accepted --kb values.  `kb * 1096` is computed without
# overflow check (src/main.rs do_fuzzing): a debug build panics (exit 101), a
# release build wraps around and happily writes a 9.8 KB file for a request of
# 1.6e16 KB with exit status 0.  Slightly smaller values abort the process
# (SIGABRT, exit 134) on the failed allocation.
# Usage: repro.sh /path/to/penne      exits 1 when the defect shows.
PENNE=$(readlink -f "$1")
export RUST_BACKTRACE=0
TMP=$(mktemp -d)
bad=0
for KB in 16830970870172958 99999999999; do
	rm -f "$TMP/fuzzed_tokens.pn"
	echo "--- penne fuzz tokens --kb $KB"
	timeout 60 "$PENNE" fuzz tokens --kb $KB --out-dir "$TMP" --color=never > "$TMP/log" 2>&1
	rc=$?
	tail -4 "$TMP/log"
	echo "exit status: $rc"
	if [ -e "$TMP/fuzzed_tokens.pn" ]; then
		size=$(stat -c %s "$TMP/fuzzed_tokens.pn")
		echo "file written: $size bytes (requested: $KB KB)"
		[ $rc = 0 ] && { echo "  -> success reported for an output shorter than requested"; bad=1; }
	fi
	grep -q "panicked at\|memory allocation of" "$TMP/log" && { echo "  -> crashed instead of reporting a usage error"; bad=1; }
done
rm -rf "$TMP"
if [ $bad = 1 ]; then echo "DEFECT"; exit 1; fi
echo "no defect seen"; exit 0
