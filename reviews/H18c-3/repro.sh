#!/bin/bash
# Finding 3: a compilation in which everything succeeds is reported as failed
# (and, for warnings, is aborted before any artefact is written) only because a
# purely informational line could not be printed.
# usage: repro.sh /path/to/penne
P="$1"
[ -x "$P" ] || { echo "usage: $0 /path/to/penne"; exit 2; }
here="$(cd "$(dirname "$0")" && pwd)"
cd "$here" || exit 2
export RUST_BACKTRACE=0
tmp="$(mktemp -d)"
trap 'rm -rf "$tmp"' EXIT
defect=0

echo "== A: valid program with two lint warnings, stderr is fine"
"$P" emit --color=never --arrows=ascii --out-dir "$tmp/ok" multiple_lints.pn >"$tmp/a.out" 2>"$tmp/a.err"; rc=$?
echo "exit=$rc, warnings: $(grep -c Warning "$tmp/a.err"), artefacts: $(ls "$tmp/ok" 2>/dev/null | tr '\n' ' ')"

echo "== A': same, stderr closed (2>&-)"
"$P" emit --color=never --arrows=ascii --out-dir "$tmp/closed" multiple_lints.pn >"$tmp/a2.out" 2>&-; rc=$?
echo "exit=$rc, artefacts: $(ls "$tmp/closed" 2>/dev/null | tr '\n' ' ')"

echo "== A'': same, stderr=/dev/full"
"$P" emit --color=never --arrows=ascii --out-dir "$tmp/full" multiple_lints.pn >"$tmp/a3.out" 2>/dev/full; rc=$?
echo "exit=$rc, artefacts: $(ls "$tmp/full" 2>/dev/null | tr '\n' ' ')"
if [ $rc -ne 0 ] && [ ! -e "$tmp/full/multiple_lints.pn.ll" ]
then
	echo "  DEFECT: a valid program is not compiled (exit $rc, no .pn.ll) because a warning could not be shown"
	defect=1
fi

echo "== B: build of a valid program, the reader of stdout leaves after the 'Running' line"
# penne prints 'Running "clang" ...' and an empty line, then runs clang, then
# prints 'Done.'; the reader (think of `| head`) is gone by then.
( cd "$tmp" && cp "$here/five.pn" . && { "$P" build --color=never five.pn 2>b.err; echo $? >b.rc; } | sed -n '/Running/{n;q}' >b.out )
rc=$(cat "$tmp/b.rc")
echo "exit=$rc"; sed 's/^/    | /' "$tmp/b.err"
if [ -x "$tmp/five.$(uname -m)" ]
then
	"$tmp/five.$(uname -m)"; prc=$?
	echo "artefact five.$(uname -m) exists and runs: exit status $prc"
	if [ "$rc" -ne 0 ] && [ $prc -eq 5 ]
	then
		echo "  DEFECT: compilation and clang succeeded, the executable is complete, penne exits $rc"
		defect=1
	fi
fi

exit $defect
