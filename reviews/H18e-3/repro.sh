#!/bin/sh
# usage: repro.sh /path/to/penne
# BY-CATCH, not a C18 violation (penne reports the crash truthfully):
# a `var` declared inside a looped block is lowered to an `alloca` inside the
# loop body, so the stack grows on every iteration; a valid program with a
# local variable in a loop of ~520k+ iterations dies with SIGSEGV, both under
# `penne run` (lli) and as a `penne build` executable.
PENNE=${1:?path of penne binary}
PENNE=$(readlink -f "$PENNE")
HERE=$(cd "$(dirname "$0")" && pwd)
export RUST_BACKTRACE=0
WORK=$(mktemp -d)
trap 'rm -rf "$WORK"' EXIT
cd "$WORK" || exit 2
cp "$HERE/loopvar.pn" "$HERE/loopvar_hoisted.pn" .

"$PENNE" run --color=never loopvar_hoisted.pn >hoisted.txt 2>&1
echo "variable declared outside the loop: penne exit=$? $(grep '^Output:' hoisted.txt)"
"$PENNE" run --color=never loopvar.pn >inloop.txt 2>&1
RC=$?
echo "variable declared inside the loop : penne exit=$RC $(grep -a '^Output:\|^Error:' inloop.txt)"
"$PENNE" emit --color=never --verbose loopvar.pn 2>/dev/null | sed -n '/^Linking modules/,$p' | grep -n 'alloca\|^[a-z-]*:' | sed 's/^/    IR: /'
if [ $RC -ne 0 ] && grep -q 'segmentation fault' inloop.txt; then
	echo "DEFECT (code generation): valid program crashes with a stack overflow"
	exit 1
fi
exit 0
