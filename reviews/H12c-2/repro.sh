#!/bin/bash
# usage: repro.sh /path/to/penne
# main.pn imports nothing.  Adding the unrelated module other.pn (which
# defines `pub fn memset`) to the command line changes what main.pn prints
# in optimised builds.
P=${1:?usage: repro.sh /path/to/penne}
P=$(readlink -f "$P")
cd "$(dirname "$0")"
export RUST_BACKTRACE=0
t=$(mktemp -d)
trap 'rm -rf $t' EXIT

run_build() { # opt files...
	local O=$1; shift
	rm -f $t/a.out
	"$P" build --silent --color=never --backend-args=$O -o $t/a.out "$@" >$t/build.log 2>&1 || { echo "rejected at compile time"; return; }
	$t/a.out 2>&1 | tr '\n' ' '
	echo "(exit ${PIPESTATUS[0]})"
}

defect=0
for O in -O0 -O1 -O2 -Os; do
	alone=$(run_build $O main.pn)
	renamed=$(run_build $O main.pn other_renamed.pn)
	with=$(run_build $O main.pn other.pn)
	with2=$(run_build $O other.pn main.pn)
	echo "$O  main.pn alone:                 $alone"
	echo "$O  main.pn + other_renamed.pn:    $renamed"
	echo "$O  main.pn + other.pn:            $with"
	echo "$O  other.pn + main.pn:            $with2"
	for x in "$with" "$with2"; do
		case "$x" in
			"rejected at compile time") ;; # a diagnostic would be a legitimate outcome
			"$alone") ;;
			*) defect=1 ;;
		esac
	done
done
r=$("$P" run --color=never main.pn other.pn 2>&1 | grep -a 'total=\|Output')
echo "penne run main.pn other.pn: $(echo $r)"

echo "--- second pair: main128.pn prints an i128, other128.pn defines pub fn __udivti3"
runit() { "$P" run --color=never "$@" 2>&1 | grep -a '^x=' ; }
a=$(runit main128.pn)
b=$(runit main128.pn other128.pn)
c=$(runit other128.pn main128.pn)
echo "penne run main128.pn:              ${a:-rejected at compile time}"
echo "penne run main128.pn other128.pn:  ${b:-rejected at compile time}"
echo "penne run other128.pn main128.pn:  ${c:-rejected at compile time}"
for x in "$b" "$c"; do
	if [ -n "$x" ] && [ "$x" != "$a" ]; then defect=1; fi
done
for O in -O0 -O2; do
	a=$(run_build $O main128.pn)
	b=$(run_build $O main128.pn other128.pn)
	echo "$O  main128.pn alone:          $a"
	echo "$O  main128.pn + other128.pn:  $b"
	if [ "$b" != "rejected at compile time" ] && [ "$b" != "$a" ]; then defect=1; fi
done
if [ $defect = 1 ]; then
	echo "DEFECT: an unrelated module changed the behaviour of a module that does not import it"
	exit 1
fi
echo "no defect observed"
exit 0
