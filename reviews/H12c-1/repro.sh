#!/bin/bash
# usage: repro.sh /path/to/penne
# A program whose `fn main()` has no return type: the exit status of the
# built program depends on how the program is split into files, on the order
# in which the files are given, on the optimisation level, and differs from
# `penne run`.
P=${1:?usage: repro.sh /path/to/penne}
P=$(readlink -f "$P")
cd "$(dirname "$0")"
export RUST_BACKTRACE=0
t=$(mktemp -d)
trap 'rm -rf $t' EXIT

status_of_build() { # opt files...
	local O=$1; shift
	rm -f $t/a.out
	"$P" build --silent --color=never --backend-args=$O -o $t/a.out "$@" >$t/build.log 2>&1 || { echo "rejected"; return; }
	$t/a.out >$t/out.txt 2>&1
	echo $?
}
status_of_run() { # files...
	local r
	r=$("$P" run --color=never "$@" 2>&1 | sed -n 's/^Output: //p')
	echo ${r:-rejected}
}

defect=0
check_program() { # label, then one quoted file list per variant
	local label=$1; shift
	local all=""
	echo "--- $label"
	for files in "$@"; do
		r=$(status_of_run $files)
		echo "penne run        [$files]: exit status $r"
		all="$all $r"
		for O in -O0 -O2; do
			s=$(status_of_build $O $files)
			echo "penne build $O  [$files]: exit status $s"
			all="$all $s"
		done
	done
	local distinct=$(echo $all | tr ' ' '\n' | sort -u | wc -l)
	echo "distinct results: $(echo $all | tr ' ' '\n' | sort -u | tr '\n' ' ')"
	if [ "$distinct" -gt 1 ]; then defect=1; fi
}

check_program "main without return type calling two pub functions of lib.pn" \
	"single.pn" "main.pn lib.pn" "lib.pn main.pn"
check_program "minimal pair: 'fn main() {}' plus one pub function that nobody calls" \
	"min_main.pn min_lib.pn" "min_lib.pn min_main.pn"

if [ $defect = 1 ]; then
	echo "DEFECT: the same program exits with different statuses depending on file split / file order / optimisation level / run-vs-build"
	exit 1
fi
echo "no defect observed"
exit 0
