#!/bin/bash
# Usage: repro.sh /path/to/penne
# Exits 1 when the defect shows: a `file:line:column` header in a rendered
# diagnostic is followed by a snippet that does not contain that line.
P=${1:?path to penne binary}
cd "$(dirname "$0")" || exit 2
export RUST_BACKTRACE=0
bad=0
for f in decl_before_use.pn operator_lines.pn unary_lines.pn
do
	"$P" emit --color=never --arrows=ascii "$f" 2>&1 | grep -v '^$' > out.txt
	echo "== $f"
	cat out.txt | sed 's/^/   /'
	python3 - "$f" out.txt <<'PY' || bad=1
import re, sys
name, path = sys.argv[1], sys.argv[2]
groups = []
for ln in open(path, encoding='utf8'):
    m = re.match(r'\s*([,|])-\[ (.*):(\d+):(\d+) \]', ln)
    if m:
        groups.append({'first': m.group(1) == ',', 'line': int(m.group(3)), 'col': int(m.group(4)), 'shown': []})
        continue
    m = re.match(r'\s*(\d+) \| ', ln)
    if m and groups:
        groups[-1]['shown'].append(int(m.group(1)))
rc = 0
for i, g in enumerate(groups):
    if g['line'] not in g['shown']:
        which = 'first' if g['first'] else 'continuation'
        print(f"   DEFECT: {which} header says {name}:{g['line']}:{g['col']} but the snippet below it shows only line(s) {g['shown']}")
        rc = 1
sys.exit(rc)
PY
done
rm -f out.txt
exit $bad
