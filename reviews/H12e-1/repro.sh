#!/bin/bash
# usage: repro.sh /path/to/penne
# Naming a module twice on the command line (easy with the package forms
# `core:text` / `core:text/char.pn`, `vendor:libc` / `vendor:libc/ctype.pn`)
# is not idempotent: the program is rejected with E421 when the module that is
# named twice defines a pub function, and accepted when it does not.
P=${1:?usage: repro.sh /path/to/penne}
export RUST_BACKTRACE=0
cd "$(dirname "$0")" || exit 2
bad=0

run() { # label, expected (ok|any), args...
	local label=$1; shift
	local out
	out=$("$P" run --color=never "$@" 2>&1 </dev/null)
	local summary
	summary=$(echo "$out" | grep -E '^\[E[0-9]+\]|^Output|^Error' | tr '\n' ' ')
	echo "== penne run $*"
	echo "   -> $summary"
	LAST="$summary"
}

run base main.pn util.pn core:text vendor:libc
case "$LAST" in *"Output: 0"*) ;; *) echo "unexpected: baseline does not work"; exit 2;; esac

# 0. following the compiler's own advice produces the duplicate
echo "== penne run hint_main.pn vendor:libc/ctype.pn"
"$P" run --color=never hint_main.pn vendor:libc/ctype.pn 2>&1 </dev/null | grep -E '^\[E|Note:' | sed 's/^/   -> /'
run hint hint_main.pn vendor:libc/ctype.pn vendor:libc
case "$LAST" in *E421*) echo "   DEFECT: added 'vendor:libc' as the E477 note says -> 14 x E421"; bad=1;; esac

# 1. the same package twice
run dup1 main.pn util.pn core:text core:text vendor:libc
case "$LAST" in *E421*) echo "   DEFECT: package named twice -> E421"; bad=1;; esac

# 2. the package as a directory and one of its files
run dup2 main.pn util.pn core:text core:text/char.pn vendor:libc
case "$LAST" in *E421*) echo "   DEFECT: package dir + its file -> E421"; bad=1;; esac
"$P" run --color=never main.pn util.pn core:text core:text/char.pn vendor:libc 2>&1 </dev/null | sed -n '/E421/,/───╯/p'

# 3. vendor:libc twice (ctype.pn defines pub functions)
run dup3 main.pn util.pn core:text vendor:libc vendor:libc
case "$LAST" in *E421*) echo "   DEFECT: vendor:libc twice -> E421"; bad=1;; esac

# 4. ... but a module without pub function bodies may be named twice
run dup4 main.pn util.pn core:text vendor:libc/stdlib.pn vendor:libc/stdlib.pn
case "$LAST" in *"Output: 0"*) echo "   (accepted: stdlib.pn has only function heads)";; esac
run dup5 usesconsts.pn consts.pn consts.pn
case "$LAST" in *"Output: 0"*) echo "   (accepted: consts.pn has only constants and structures)";; esac

# 5. the accepted duplicate is rejected again as soon as --out-dir is given
rm -rf od
out=$("$P" emit --color=never --out-dir od usesconsts.pn consts.pn consts.pn 2>&1 </dev/null)
echo "== penne emit --out-dir od usesconsts.pn consts.pn consts.pn"
echo "   -> $(echo "$out" | grep -E '^Error|^Done' | tr '\n' ' ')"
case "$out" in *"already holds the IR"*) echo "   DEFECT: same input, accepted by run, rejected by emit --out-dir"; bad=1;; esac
rm -rf od

# 6. the same with a user file under two spellings
run dup6 main.pn util.pn ./util.pn core:text vendor:libc
case "$LAST" in *E421*) echo "   (user file under two spellings -> E421 as well)";; esac

exit $bad
