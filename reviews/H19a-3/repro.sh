#!/bin/bash
# Finding 3: at --kb 72000 (about 75 MB, far below the delta lexer's own
# MAX_SOURCE_LEN of 2 GiB) the output holds more than 2^24 tokens and the
# delta lexer rejects the whole file with the lexical error TooManyTokens
# (E103); the alpha lexer accepts it.  Needs ~80 MB of disk, ~2 minutes with
# a debug build.
# Usage: repro.sh /path/to/penne [KB]     exits 1 when the defect shows.
PENNE=$(readlink -f "$1")
KB=${2:-72000}
HERE=$(cd "$(dirname "$0")" && pwd)
export RUST_BACKTRACE=0
LEXCHECK=$("$HERE/../tools/get_lexcheck.sh" "$PENNE") || exit 2
TMP=$(mktemp -d)
"$PENNE" fuzz tokens --kb $KB --out-dir "$TMP" --silent
echo "exit status of 'penne fuzz tokens --kb $KB': $?"
echo "size: $(stat -c %s "$TMP/fuzzed_tokens.pn") bytes"
out=$("$LEXCHECK" file "$TMP/fuzzed_tokens.pn" | grep -v "kind differs")
echo "$out"
rm -rf "$TMP"
if echo "$out" | grep -q "lexical error"; then echo "DEFECT: lexical error in generator output"; exit 1; fi
echo "no lexical error"; exit 0
