#!/bin/sh
# usage: repro.sh /path/to/penne
# x.pn and y.pn do not import each other. Is the IR written for x.pn the same
# whether or not y.pn is on the command line, and in either order?
PENNE="${1:?usage: repro.sh /path/to/penne}"
HERE="$(cd "$(dirname "$0")" && pwd)"
WORK="$(mktemp -d)"
trap 'rm -rf "$WORK"' EXIT
cp "$HERE"/*.pn "$WORK/"
cd "$WORK" || exit 2
export RUST_BACKTRACE=0

"$PENNE" emit --color=never --out-dir alone x.pn >/dev/null 2>&1 || exit 2
"$PENNE" emit --color=never --out-dir xy x.pn y.pn >/dev/null 2>&1 || exit 2
"$PENNE" emit --color=never --out-dir yx y.pn x.pn >/dev/null 2>&1 || exit 2

bad=0
for d in xy yx
do
	if cmp -s alone/x.pn.ll $d/x.pn.ll
	then
		echo "$d/x.pn.ll: identical to the IR of x.pn compiled alone"
	else
		echo "$d/x.pn.ll: DIFFERS from the IR of x.pn compiled alone:"
		diff alone/x.pn.ll $d/x.pn.ll
		bad=1
	fi
done
if [ $bad -ne 0 ]
then
	echo "DEFECT: the IR emitted for x.pn depends on an unrelated module compiled before it"
	exit 1
fi
echo "ok"
exit 0
