#!/bin/bash
# usage: repro.sh /path/to/penne
# Defect: `penne emit --wasm --out-dir D` writes per-module IR whose target triple
# is the host's (x86_64-...) while the data layout is the wasm32 one, and prints an
# LLVM warning about mismatching triples for a perfectly valid program.
PENNE=$(readlink -f "$1"); HERE=$(cd "$(dirname "$0")" && pwd)
export RUST_BACKTRACE=0
T=$(mktemp -d); trap 'rm -rf "$T"' EXIT
cp "$HERE/five.pn" "$T/"; cd "$T"
"$PENNE" emit --wasm --color=never --out-dir out five.pn >stdout.txt 2>stderr.txt; rc=$?
echo "exit status: $rc"
echo "stderr:"; grep -v '^$' stderr.txt
echo "head of out/five.pn.ll:"; head -4 out/five.pn.ll
echo "linked module as shown by --verbose:"
"$PENNE" emit --wasm --color=never --verbose five.pn 2>/dev/null | grep -A3 "ModuleID = 'combined'"
defect=0
if [ $rc -eq 0 ] && ! grep -q 'target triple = "wasm32' out/five.pn.ll; then
	echo "DEFECT: --wasm given, exit 0, but the module's .pn.ll does not target wasm32"
	defect=1
fi
if grep -q 'different target triples' stderr.txt; then
	echo "DEFECT: spurious LLVM warning for a valid program"
	defect=1
fi
exit $defect
