#!/bin/sh
# usage: repro.sh /path/to/penne
# The valid split (main_pub.pn + c_pub.pn) runs like single.pn. Removing the
# `pub` (c_private.pn) or the `import` (main_noimport.pn) must give E402 in
# the main module; instead the compiler panics in the generator.
PENNE="$1"
cd "$(dirname "$0")" || exit 2
export RUST_BACKTRACE=0
run() { "$PENNE" run --color=never --arrows=ascii "$@" 2>&1 | grep -E '^Output:|\[E[0-9]+\]|panicked|,-\[' | tr '\n' ' '; }
echo "single.pn                    -> $(run single.pn)"
echo "main_pub.pn c_pub.pn         -> $(run main_pub.pn c_pub.pn)"
echo "c_pub.pn main_pub.pn         -> $(run c_pub.pn main_pub.pn)"
bad=0
for files in "main_private.pn c_private.pn" "c_private.pn main_private.pn" \
	"main_noimport.pn c_pub.pn" "c_pub.pn main_noimport.pn"
do
	r=$(run $files)
	echo "$files -> $r"
	case "$r" in
		*E402*main_*) ;;
		*) bad=1 ;;
	esac
done
if [ $bad = 1 ]; then echo "DEFECT: no undefined-reference diagnostic (compiler panic)"; exit 1; fi
echo "no defect"; exit 0
