#!/bin/sh
# usage: repro.sh /path/to/penne   (needs lli on PATH)
# `penne run` must show the program's exit status. When the program's last
# output on stdout does not end in a newline, penne's "Output: N" is glued to it.
PENNE="$1"
HERE="$(cd "$(dirname "$0")" && pwd)"
export RUST_BACKTRACE=0
T="$(mktemp -d)"; trap 'rm -rf "$T"' EXIT
cd "$HERE" || exit 2
bad=0
for src in withnl.pn nonl.pn
do
	"$PENNE" run --color=never "$src" >"$T/out" 2>"$T/err"; rc=$?
	echo "== penne run --color=never $src : exit status $rc ; stdout from the Running line on:"
	sed -n '/^Running/,$p' "$T/out" | cat -A | sed 's/^/    /'
	if grep -q '^Output: 7$' "$T/out"
	then echo "  status line found: $(grep '^Output: ' "$T/out")"
	else echo "  DEFECT: no line 'Output: 7' in the output of penne; the status is fused with the program's text"; bad=1
	fi
done
if [ $bad -ne 0 ]; then echo "RESULT: defect shows"; exit 1; fi
echo "RESULT: defect does not show"; exit 0
