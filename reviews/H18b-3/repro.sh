#!/bin/sh
# Usage: repro.sh /path/to/penne
# Exit 1 when the defect shows, 0 when it does not.
PENNE="${1:?usage: repro.sh /path/to/penne}"
PENNE=$(readlink -f "$PENNE")
HERE=$(cd "$(dirname "$0")" && pwd)
export RUST_BACKTRACE=0
unset PENNE_BACKEND PENNE_LLI
WORK=$(mktemp -d /tmp/H18b-f3.XXXXXX)
trap 'rm -rf "$WORK"' EXIT
cd "$WORK" || exit 2
cp "$HERE/five.pn" "$HERE/backend_from_config.sh" .
echo 'backend = "./backend_from_config.sh"' > penne.toml
defect=0

show() { grep -v '^$' "$1" | sed 's/^/    /'; }

echo "== 1. config names a backend, PENNE_BACKEND unset (reference)"
"$PENNE" build --color=never --config penne.toml five.pn >o1 2>&1; rc1=$?
show o1; echo "exit status $rc1"

echo "== 2. config names a backend, PENNE_BACKEND set to the empty string"
PENNE_BACKEND= "$PENNE" build --color=never --config penne.toml five.pn >o2 2>&1; rc2=$?
show o2; echo "exit status $rc2"
if [ $rc2 -ne 0 ] && ! grep -q BACKEND-FROM-CONFIG o2
then
	echo "-> the empty environment value shadowed the backend of the config file"
	defect=1
fi

if command -v clang >/dev/null 2>&1
then
	echo "== 3. no flag, no config, PENNE_BACKEND empty: the default (clang) should be used"
	PENNE_BACKEND= "$PENNE" build --color=never five.pn >o3 2>&1; rc3=$?
	show o3; echo "exit status $rc3"
	if [ $rc3 -ne 0 ]; then echo "-> the empty environment value shadowed the default backend"; defect=1; fi
fi

if command -v lli >/dev/null 2>&1
then
	echo "== 4. penne run, PENNE_LLI empty: the default (lli) should be used"
	PENNE_LLI= "$PENNE" run --color=never five.pn >o4 2>&1; rc4=$?
	show o4; echo "exit status $rc4"
	if [ $rc4 -ne 0 ]; then echo "-> the empty environment value shadowed the default backend"; defect=1; fi
fi

echo "== 5. for comparison: an empty value for the flag is refused with a clear message"
"$PENNE" build --color=never --backend= five.pn >o5 2>&1; echo "exit status $?"; show o5

echo
if [ $defect -eq 1 ]; then echo "RESULT: defect shows"; exit 1; fi
echo "RESULT: defect does not show"; exit 0
