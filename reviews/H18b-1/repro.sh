#!/bin/sh
# Usage: repro.sh /path/to/penne
# Exit 1 when the defect shows, 0 when it does not.
PENNE="${1:?usage: repro.sh /path/to/penne}"
PENNE=$(readlink -f "$PENNE")
HERE=$(cd "$(dirname "$0")" && pwd)
export RUST_BACKTRACE=0
unset PENNE_BACKEND PENNE_LLI
WORK=$(mktemp -d /tmp/H18b-f1.XXXXXX)
trap 'rm -rf "$WORK"' EXIT
cp "$HERE/five.pn" "$HERE/hello_from_penne.pn" "$HERE/penne_wasm4.toml" "$WORK/"
cd "$WORK" || exit 2
defect=0
argv_defect=0
have_clang=0

echo "== Part 1: what the backend is told for 'penne build --wasm five.pn' (stand-in backend)"
REC_OUT="$WORK/rec" "$PENNE" build --color=never --wasm --backend "$HERE/record_backend.sh" five.pn >/dev/null 2>"$WORK/stderr1"
echo "penne exit status: $?"
echo "backend argv:"; sed 's/^/    /' "$WORK/rec.argv"
echo "triple in the IR on the backend's stdin:"; grep '^target triple' "$WORK/rec.stdin" | sed 's/^/    /'
if grep -q -e 'wasm32' -e '^--target' -e '^-target' -e '^-triple' "$WORK/rec.argv"
then
	echo "-> the backend's command line names the wasm target"
else
	echo "-> nothing on the backend's command line names the wasm target (only -o ...wasm)"
	argv_defect=1
fi

if command -v clang >/dev/null 2>&1
then
	have_clang=1
	echo
	echo "== Part 2: real clang, 'penne --wasm five.pn'"
	"$PENNE" --color=never --wasm five.pn >"$WORK/out2" 2>&1
	rc=$?
	grep -v '^$' "$WORK/out2" | sed 's/^/    /'
	echo "penne exit status: $rc"
	if [ -f five.wasm ]
	then
		magic=$(head -c 4 five.wasm | od -An -tx1 | tr -d ' \n')
		echo "first four bytes of five.wasm: $magic  (0061736d = wasm module, 7f454c46 = ELF)"
		if [ "$rc" -eq 0 ] && [ "$magic" != "0061736d" ]
		then
			echo "-> DEFECT: exit 0 and 'Done.', but five.wasm is not a WebAssembly module"
			defect=1
			if [ "$magic" = "7f454c46" ]
			then
				./five.wasm
				echo "   (five.wasm is a native executable: running it on the host returned $?)"
			fi
		fi
	else
		echo "no five.wasm was produced (exit status $rc)"
	fi

	echo
	echo "== Part 3: the project's own examples/wasm4/penne_wasm4.toml (wasm = true)"
	"$PENNE" --color=never --config penne_wasm4.toml hello_from_penne.pn vendor:wasm4 >"$WORK/out3" 2>&1
	rc=$?
	grep -v '^$' "$WORK/out3" | cut -c1-160 | sed 's/^/    /'
	echo "penne exit status: $rc"
	echo "-- same, but telling clang the target by hand through --backend-args:"
	"$PENNE" --color=never --config penne_wasm4.toml \
		"--backend-args=--target=wasm32-unknown-wasi -nostartfiles -nostdlib" \
		hello_from_penne.pn vendor:wasm4 >"$WORK/out4" 2>&1
	rc4=$?
	echo "penne exit status: $rc4"
	if [ -f hello_from_penne.wasm ]
	then
		echo "first four bytes of hello_from_penne.wasm: $(head -c 4 hello_from_penne.wasm | od -An -tx1 | tr -d ' \n')"
	fi
fi

echo
# With a real clang the verdict is the artefact; without one, the command line.
if [ $have_clang -eq 0 ]; then defect=$argv_defect; fi
if [ $defect -eq 1 ]; then echo "RESULT: defect shows"; exit 1; fi
echo "RESULT: defect does not show"; exit 0
