#!/bin/bash
# usage: repro.sh /path/to/penne
# Takes the code that `--verbose` prints under "Rebuilding F..." right after
# "Parsing F...", feeds it back to penne under the same file name and
# compares the IR. Exits 1 when the rebuilt code is accepted but means a
# different program, or is no longer accepted.
P=$(readlink -f "${1:?path to penne binary}")
cd "$(dirname "$0")"
export RUST_BACKTRACE=0
bad=0
for f in silent.pn literals.pn
do
	rm -rf work; mkdir -p work/a work/b work/rebuilt
	"$P" emit --color=never --out-dir work/a $f >/dev/null 2>&1 || { echo "$f: original does not compile"; continue; }
	"$P" emit --verbose --color=never $f 2>/dev/null |
		awk '/^Rebuilding /{n++; if(n==1){on=1; next}} /^Expanding imports\.\.\./{on=0} on{print}' |
		sed 's/^¦   //; s/¦   /\t/g' > work/rebuilt/$f
	echo "=== $f: original"; cat $f
	echo "--- rebuilt (first 'Rebuilding' dump of --verbose)"; cat work/rebuilt/$f
	(cd work/rebuilt && "$P" emit --color=never --out-dir ../b $f >../b.log 2>&1)
	rc=$?
	if [ $rc != 0 ]; then
		echo "--- DEFECT: the rebuilt code is rejected:"; grep -A5 '^\[E' work/b.log | head -14; bad=1
	elif cmp -s work/a/$f.ll work/b/$f.ll; then
		echo "--- same IR"
	else
		echo "--- DEFECT: the rebuilt code is accepted but gives different IR:"
		diff work/a/$f.ll work/b/$f.ll; bad=1
	fi
done
rm -rf work
exit $bad
