#!/bin/bash
# usage: repro.sh /path/to/penne
# Exits 1 when penne panics (exit status 101, no coded diagnostic) on a
# function that passes its `&[]i32` parameter on to another function.
P=$(readlink -f "${1:?path to penne binary}")
cd "$(dirname "$0")"
export RUST_BACKTRACE=0
bad=0
"$P" emit --color=never ok.pn >/dev/null 2>ok.err
echo "ok.pn (control, passes \`&data\`): exit $?"
for f in min.pn valid_min.pn missing_address_slice_pointer.pn autoderef_edge_cases.pn
do
	for run in 1 2
	do
		"$P" emit --color=never "$f" >/dev/null 2>err.$run.txt
		rc=$?
		echo "$f run $run: exit $rc; coded diagnostics: $(grep -c '^\[[EL][0-9]*\]' err.$run.txt); stderr: $(tr '\n' ' ' < err.$run.txt | cut -c1-150)"
		if [ $rc -ge 100 ]; then bad=1; fi
	done
	if ! cmp -s err.1.txt err.2.txt; then echo "$f: stderr text differs between the two runs"; fi
done
rm -f err.1.txt err.2.txt ok.err
exit $bad
