#!/bin/bash
# usage: repro.sh /path/to/penne
# The same three files, named relatively, with ./ and absolutely, and from two working
# directories: which module `import "util.pn"` in sub/main.pn refers to - and so the IR and
# the verdict - depends on the spelling of the names and on the working directory.
# Exits 1 when the compilations disagree, 0 when they all agree.
P=$(readlink -f "${1:?path of the penne binary}")
here=$(cd "$(dirname "$0")" && pwd)
export RUST_BACKTRACE=0
T=$(mktemp -d)
cp -r "$here/proj" "$T/proj"
declare -A seen

try() { # label, working directory, names...
	local label=$1 dir=$2; shift 2
	# --verbose dumps the IR of every module and of the linked program on stdout
	(cd "$dir" && "$P" emit --color=never --verbose "$@" >"$T/out.txt" 2>"$T/err.txt")
	local rc=$?
	local body=$(grep -E '^  ret i32' "$T/out.txt" | sort -u | tr -s ' ' | tr '\n' ';')
	[ -z "$body" ] && body="(no IR)"
	local code=$(grep -Eo '^\[[EL][0-9]+\]' "$T/err.txt" | tr '\n' ' ')
	printf '%-58s exit %s %s %s\n' "$label" "$rc" "$code" "$body"
	seen["$group: $rc $code $body"]=1
}

group=A
echo "== A. the same three files; only the spelling of the names / the working directory differs"
try "proj\$ penne emit sub/main.pn sub/util.pn util.pn"         "$T/proj"     sub/main.pn sub/util.pn util.pn
try "proj\$ penne emit ./sub/main.pn ./sub/util.pn ./util.pn"   "$T/proj"     ./sub/main.pn ./sub/util.pn ./util.pn
try "proj\$ penne emit (the three absolute names)"              "$T/proj"     "$T/proj/sub/main.pn" "$T/proj/sub/util.pn" "$T/proj/util.pn"
try "proj/sub\$ penne emit main.pn util.pn ../util.pn"          "$T/proj/sub" main.pn util.pn ../util.pn
group=B
echo "== B. the same two files"
try "proj\$ penne emit sub/main.pn sub/util.pn"                 "$T/proj"     sub/main.pn sub/util.pn
try "proj\$ penne emit sub/main.pn ./sub/util.pn"               "$T/proj"     sub/main.pn ./sub/util.pn
try "proj\$ penne emit ./sub/main.pn sub/util.pn"               "$T/proj"     ./sub/main.pn sub/util.pn

rm -rf "$T"
n=${#seen[@]}
echo "$n different results (2 expected: one per group)"
[ $n -gt 2 ] && exit 1
exit 0
