#!/bin/sh
# usage: repro.sh /path/to/penne
# The valid split (main_pub.pn + calc_pub.pn) runs like single.pn. With the
# `pub` of `compute` or of `LIMIT` removed, or the import removed, the program
# is rejected, but WITHOUT an undefined-reference diagnostic (E401/E402):
# the only error is E530 "Cannot mutate this value" about the parameter.
PENNE="$1"
cd "$(dirname "$0")" || exit 2
export RUST_BACKTRACE=0
run() { "$PENNE" run --color=never --arrows=ascii "$@" 2>&1 | grep -E '^Output:|\[E[0-9]+\]|panicked' | tr '\n' ' '; }
echo "single.pn                                   -> $(run single.pn)"
echo "main_pub.pn calc_pub.pn                     -> $(run main_pub.pn calc_pub.pn)"
echo "calc_pub.pn main_pub.pn                     -> $(run calc_pub.pn main_pub.pn)"
bad=0
check() {
	want="$1"; shift
	r=$(run "$@")
	echo "$* -> $r   (expected $want)"
	case "$r" in *"$want"*) ;; *) bad=1 ;; esac
}
check E401 main_private_fn.pn calc_private_fn.pn
check E401 calc_private_fn.pn main_private_fn.pn
check E402 main_private_const.pn calc_private_const.pn
check E402 calc_private_const.pn main_private_const.pn
check E401 main_noimport.pn calc_pub.pn
check E402 calc_pub.pn main_noimport.pn
echo "--- full diagnostic for main_private_fn.pn calc_private_fn.pn:"
"$PENNE" run --color=never --arrows=ascii main_private_fn.pn calc_private_fn.pn 2>&1 | grep -v '^$' | head -14
if [ $bad = 1 ]; then echo "DEFECT: rejected without the undefined-reference diagnostic"; exit 1; fi
echo "no defect"; exit 0
