#!/bin/sh
# usage: repro.sh /path/to/penne   (alpha build)
# exits 1 when the defect shows, 0 when it does not
PENNE=${1:?usage: repro.sh /path/to/penne}
cd "$(dirname "$0")" || exit 2
export RUST_BACKTRACE=0
bad=0

run() { "$PENNE" run --color=never "$@" 2>&1 | grep -v '^$'; }
show() { echo "penne run $*"; run "$@" | sed 's/^/    /'; }

echo "## case 1: an unrelated module changes what print! does in another module"
echo "greeter.pn: pub fn greet() prints hello and returns 0;   main.pn: imports greeter.pn, returns greet()"
echo "util.pn: pub fn write(x: i32) -> i32; imported by nobody in this run"
show main.pn greeter.pn
base=$(run main.pn greeter.pn | grep -v '^Running' )
for order in "main.pn greeter.pn util.pn" "util.pn greeter.pn main.pn" "greeter.pn util.pn main.pn"; do
	show $order
	now=$(run $order | grep -v '^Running')
	if [ "$now" != "$base" ]; then
		bad=1
		echo "    ^ differs from the run without util.pn"
	fi
done

echo
echo "## case 2: split program vs. the same program in one file"
show single_both.pn
show main_both.pn greeter.pn util.pn
a=$(run single_both.pn | grep -v '^Running')
b=$(run main_both.pn greeter.pn util.pn | grep -v '^Running')
if [ "$a" != "$b" ]; then bad=1; echo "    ^ the two differ (neither prints hello and returns 42)"; fi

echo
echo "## case 3: importing the bundled vendor:libc/stdlib.pn (which exports 'abort') breaks panic!() in the importer"
show nolibc_main.pn
show libc_main.pn vendor:libc
a=$(run nolibc_main.pn | sed -n 's/^Output: //p')
b=$(run libc_main.pn vendor:libc | sed -n 's/^Output: //p')
if [ "$a" != "$b" ]; then bad=1; echo "    ^ Output $b instead of $a; the only difference is the (unused) import"; fi
if run libc_main.pn vendor:libc | grep -q 'abort\.1'; then bad=1; fi

echo
if [ $bad = 1 ]; then
	echo "DEFECT: the C symbols used by the builtins (write, snprintf, abort) collide with Penne functions of other / imported modules"
	exit 1
fi
echo "no defect observed"
exit 0
