#!/bin/bash
# usage: repro.sh /path/to/penne
# Exits 1 when diagnostics are not listed in source order:
#  (a) lints of one module (constants first, by dependency depth, then functions),
#  (b) errors of one function when no other declaration has an error
#      (they ARE sorted as soon as a second declaration has an error too).
P=$(readlink -f "${1:?path to penne binary}")
cd "$(dirname "$0")"
export RUST_BACKTRACE=0
bad=0

lines() { # print the line numbers of the primary locations, in order of appearance
	"$P" emit --color=never "$1" 2>&1 | grep -o "╭─\[ $1:[0-9]*:" | sed 's/.*:\([0-9]*\):$/\1/' | tr '\n' ' '
}
check() {
	got=$(lines "$1")
	sorted=$(echo $got | tr ' ' '\n' | sort -n | tr '\n' ' ')
	echo "$1: lines of the diagnostics in order of appearance: $got"
	if [ "$got" != "$sorted" ]; then echo "    NOT in source order (sorted would be: $sorted)"; return 1; fi
	return 0
}

check lints.pn || bad=1          # 5 x L1142
check errors.pn                   # same shape, 5 errors: these are sorted
check one_function.pn || bad=1    # E333 E504 E402
check two_functions.pn            # same function plus another bad one: sorted

# determinism of the (wrong) order
for i in $(seq 1 20); do lines lints.pn; echo; done | sort -u | wc -l | sed 's/^/distinct orders of lints.pn over 20 runs: /'
exit $bad
