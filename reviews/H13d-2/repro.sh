#!/bin/bash
# usage: repro.sh /path/to/penne
# The diagnostics go to stderr. They are lost (and the compiler panics) when *stdout*
# cannot be written, and with a reader that closes stdout early the outcome differs from
# run to run. Exits 1 when that shows, 0 otherwise.
P=${1:?path of the penne binary}
cd "$(dirname "$0")"
export RUST_BACKTRACE=0
T=$(mktemp -d)
bad=0

count() { grep -Ec '^\[[EL][0-9]+\]' "$1"; }

echo "== reference: stdout to /dev/null, stderr to a file"
"$P" emit --color=never bad.pn >/dev/null 2>"$T/ref.err"; rc=$?
echo "   exit status $rc, $(count "$T/ref.err") reports on stderr"
ref=$(count "$T/ref.err")

echo "== A. stdout is /dev/full (a full disk), stderr to a file"
"$P" emit --color=never bad.pn >/dev/full 2>"$T/full.err"; rc=$?
echo "   exit status $rc, $(count "$T/full.err") reports on stderr; stderr is:"
sed 's/^/   | /' "$T/full.err" | sed -E 's/\([0-9]+\)/(tid)/'
if [ "$(count "$T/full.err")" != "$ref" ] || [ $rc -ne 1 ]; then bad=1; echo "   DEFECT: diagnostics lost / panic"; fi

echo "== B. a succeeding compilation with lints, stdout is /dev/full"
"$P" emit --color=never lints.pn >/dev/null 2>"$T/lref.err"; rcref=$?
"$P" emit --color=never lints.pn >/dev/full 2>"$T/lfull.err"; rc=$?
echo "   reference: exit status $rcref, $(count "$T/lref.err") lints;  /dev/full: exit status $rc, $(count "$T/lfull.err") lints"
if [ "$(count "$T/lfull.err")" != "$(count "$T/lref.err")" ]; then bad=1; echo "   DEFECT: lints lost"; fi

echo "== C. 50 identical runs of:  penne emit bad.pn 2>err | head -c 1"
declare -A seen
for i in $(seq 50)
do
	"$P" emit --color=never bad.pn 2>"$T/race.err" | head -c 1 >/dev/null
	rc=${PIPESTATUS[0]}
	k="exit status $rc with $(count "$T/race.err") reports"
	seen[$k]=$(( ${seen[$k]:-0} + 1 ))
done
for k in "${!seen[@]}"; do echo "   ${seen[$k]} x $k"; done
if [ ${#seen[@]} -gt 1 ]; then bad=1; echo "   DEFECT: the same compilation gave ${#seen[@]} different outcomes"; fi
k="exit status 1 with $ref reports"
if [ "${seen[$k]:-0}" != 50 ]; then bad=1; echo "   DEFECT: not all runs gave '$k'"; fi

rm -rf "$T"
exit $bad
