#!/bin/bash
# usage: repro.sh /path/to/penne   (alpha build)
# Exits 1 when the defect shows, 0 when it does not.
PENNE="$1"
[ -x "$PENNE" ] || { echo "usage: $0 /path/to/penne"; exit 2; }
export RUST_BACKTRACE=0
cd "$(dirname "$0")"
defect=0

run() { "$PENNE" emit --color=never --arrows=ascii "$@" 2>&1 | grep -v '^$'; }

echo "### 1. lib.pn on its own (expected: compiles)"
alone=$(run lib.pn); echo "$alone"
echo
echo "### 2. lib.pn together with main.pn, which only says: import \"lib.pn\";"
both=$(run lib.pn main.pn); echo "$both"
echo
if echo "$alone" | grep -q '^Done\.$' \
   && echo "$both" | grep -q '^\[E402\]' \
   && echo "$both" | grep -q 'lib\.pn:3:17' \
   && ! echo "$both" | grep -q 'main\.pn'
then
	echo "DEFECT: lib.pn compiles on its own, but with main.pn added the report says"
	echo "        \"There is no variable, parameter or constant named 'N' in this scope\""
	echo "        at lib.pn:3:17 -- a place where N (lib.pn:1) is in scope. main.pn, the"
	echo "        only file whose presence makes the difference, is not named anywhere."
	defect=1
fi

echo
echo "### 3. the repository's own sample modules (line.pn imports position.pn)"
ok=$(cd sample && run line.pn position.pn); echo "$ok"
bad=$(cd sample && run main.pn line.pn position.pn); echo "$bad"
if echo "$ok" | grep -q '^Done\.$' \
   && echo "$bad" | grep -q '^\[E405\]' \
   && echo "$bad" | grep -q 'line\.pn:5:8' \
   && ! echo "$bad" | grep -q 'main\.pn'
then
	echo "DEFECT: E405 \"Reference to undefined struct or word named 'Position'\" is located"
	echo "        at line.pn:5:8 although line.pn imports position.pn on its first line."
	defect=1
fi
exit $defect
