#!/bin/bash
# usage: repro.sh /path/to/penne
# Defect: with --out-dir D, an input given by absolute path (or through "..")
# gets its .pn.ll written next to the source instead of under D; exit status 0.
PENNE=$(readlink -f "$1"); HERE=$(cd "$(dirname "$0")" && pwd)
export RUST_BACKTRACE=0
T=$(mktemp -d); trap 'rm -rf "$T"' EXIT
mkdir -p "$T/src" "$T/work/sub"; cp "$HERE/five.pn" "$T/src/five.pn"
defect=0

echo "== case A: absolute input path"
(cd "$T/work" && "$PENNE" emit --color=never --out-dir "$T/outA" "$T/src/five.pn"); rc=$?
echo "exit status: $rc"
echo "files under outA:"; find "$T/outA" -type f 2>&1 | sed "s|$T|\$T|"
echo "files under src:";  find "$T/src" -type f | sed "s|$T|\$T|"
inA=$(find "$T/outA" -name '*.pn.ll' 2>/dev/null | wc -l)
if [ $rc -eq 0 ] && [ "$inA" -eq 0 ]; then echo "DEFECT: exit 0 but no .pn.ll under --out-dir"; defect=1; fi
if [ -e "$T/src/five.pn.ll" ]; then echo "DEFECT: artefact written into the source directory: \$T/src/five.pn.ll"; defect=1; fi
rm -f "$T/src/five.pn.ll"

echo "== case B: relative input path through '..'"
(cd "$T/work/sub" && "$PENNE" emit --color=never --out-dir out ../../src/five.pn); rc=$?
echo "exit status: $rc"
echo "all .pn.ll files:"; find "$T" -name '*.pn.ll' | sed "s|$T|\$T|"
inB=$(find "$T/work/sub/out" -name '*.pn.ll' 2>/dev/null | wc -l)
if [ $rc -eq 0 ] && [ "$inB" -eq 0 ]; then echo "DEFECT: exit 0 but no .pn.ll under --out-dir"; defect=1; fi

exit $defect
