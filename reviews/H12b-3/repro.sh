#!/bin/sh
# usage: repro.sh /path/to/penne
# One questionable literal in one pub constant: how often is the user warned?
PENNE="${1:?usage: repro.sh /path/to/penne}"
HERE="$(cd "$(dirname "$0")" && pwd)"
cd "$HERE" || exit 2
export RUST_BACKTRACE=0

single="$("$PENNE" emit --color=never single.pn 2>&1 | grep -c 'L1142')"
echo "single.pn:                 $single warning(s) L1142"
bad=0
for order in "main.pn a.pn k.pn" "k.pn a.pn main.pn" "a.pn k.pn main.pn"
do
	out="$("$PENNE" emit --color=never $order 2>&1)"
	n="$(echo "$out" | grep -c 'L1142')"
	where="$(echo "$out" | grep -c 'k.pn:1:21')"
	echo "$order:    $n warning(s) L1142, $where of them at k.pn:1:21"
	[ "$n" = "$single" ] || bad=1
done
alone="$("$PENNE" emit --color=never k.pn 2>&1 | grep -c 'L1142')"
echo "k.pn alone:                $alone warning(s) L1142"
if [ $bad -ne 0 ]
then
	echo "DEFECT: the one lint of k.pn is reported once per module that imports k.pn"
	exit 1
fi
echo "ok"
exit 0
