#!/bin/sh
# Usage: repro.sh /path/to/penne
# Exit 1 when the defect shows, 0 when it does not.
PENNE="${1:?usage: repro.sh /path/to/penne}"
PENNE=$(readlink -f "$PENNE")
HERE=$(cd "$(dirname "$0")" && pwd)
export RUST_BACKTRACE=0
unset PENNE_BACKEND PENNE_LLI
WORK=$(mktemp -d /tmp/H18b-f2.XXXXXX)
trap 'rm -rf "$WORK"' EXIT
cd "$WORK" || exit 2
cp "$HERE/small.pn" .

# A valid program whose linked IR (about 0.5 MB) exceeds the 64 KiB pipe buffer.
# The functions are `pub`, otherwise the linker drops the unused ones.
i=0
: > big.pn
while [ $i -lt 3000 ]
do
	printf 'pub fn f%d(x: i32) -> i32\n{\n\treturn: x + %d\n}\n' $i $i >> big.pn
	i=$((i+1))
done
printf 'fn main() -> i32\n{\n\treturn: f7(1)\n}\n' >> big.pn

echo "== sanity: big.pn is a valid program"
"$PENNE" run --color=never big.pn 2>&1 | grep -v '^$' | sed 's/^/    /'
"$PENNE" emit --silent --out-dir ir big.pn && echo "    size of the IR: $(wc -c < ir/big.pn.ll) bytes"

defect=0
for sub in build run
do
	echo
	echo "== penne $sub, backend exits 0 without reading its stdin"
	"$PENNE" $sub --color=never --backend "$HERE/backend_ok_early.sh" small.pn >small.out 2>&1
	rc_small=$?
	echo "small.pn: exit status $rc_small; $(grep -v '^$' small.out | tail -1)"
	for attempt in 1 2 3
	do
		"$PENNE" $sub --color=never --backend "$HERE/backend_ok_early.sh" big.pn >big.out 2>&1
		rc_big=$?
		echo "big.pn (attempt $attempt): exit status $rc_big; $(grep -v '^$' big.out | tail -1)"
		if [ $rc_big -ne 0 ]
		then
			defect=1
		fi
	done
done

if command -v clang >/dev/null 2>&1
then
	echo
	echo "== the same with the real clang: penne build --backend-args=--version"
	"$PENNE" build --color=never --backend-args=--version small.pn >small.out 2>&1
	echo "small.pn: exit status $?; $(grep -v '^$' small.out | tail -1)"
	"$PENNE" build --color=never --backend-args=--version big.pn >big.out 2>&1
	echo "big.pn:   exit status $?; $(grep -v '^$' big.out | tail -1)"
fi

echo
echo "== for comparison, a backend that fails early (status 3): the report names the pipe, not the backend"
"$PENNE" build --color=never --backend "$HERE/backend_fail_early.sh" big.pn 2>&1 | grep -v '^$' | sed 's/^/    /'

echo
if [ $defect -eq 1 ]
then
	echo "RESULT: defect shows (the backend exited with status 0, penne reported failure)"
	exit 1
fi
echo "RESULT: defect does not show"
exit 0
