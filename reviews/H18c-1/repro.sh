#!/bin/bash
# Finding 1: the diagnostics of a failing compilation are never rendered when
# stdout cannot be written (although they are written to *stderr*, which is fine).
# usage: repro.sh /path/to/penne
P="$1"
[ -x "$P" ] || { echo "usage: $0 /path/to/penne"; exit 2; }
here="$(cd "$(dirname "$0")" && pwd)"
cd "$here" || exit 2
export RUST_BACKTRACE=0
tmp="$(mktemp -d)"
trap 'rm -rf "$tmp"' EXIT
defect=0

# Reference: stdout is fine (or closed, which Rust maps to /dev/null).
"$P" emit --color=never --arrows=ascii bad.pn >/dev/null 2>"$tmp/ref.err"
echo "reference (stdout=/dev/null): exit=$?"
grep -c 'E402' "$tmp/ref.err" | sed 's/^/  E402 lines on stderr: /'
"$P" emit --color=never --arrows=ascii bad.pn >&- 2>"$tmp/closed.err"
echo "stdout closed (>&-): exit=$? E402 lines: $(grep -c 'E402' "$tmp/closed.err")"

check() # name, stderr file, exit status
{
	local n
	n=$(grep -c 'E402' "$2")
	echo "$1: exit=$3, E402 lines on stderr: $n"
	sed 's/^/    | /' "$2"
	if [ "$n" -eq 0 ]
	then
		echo "  DEFECT: compilation failed but no diagnostic was rendered"
		defect=1
	fi
}

# Case A: stdout is a full device.
"$P" emit --color=never --arrows=ascii bad.pn >/dev/full 2>"$tmp/a.err"
check "stdout=/dev/full" "$tmp/a.err" $?

# Case B: stdout is a pipe whose reader is gone.
{ sleep 0.5; "$P" emit --color=never --arrows=ascii bad.pn 2>"$tmp/b.err"; echo $? >"$tmp/b.rc"; } | true
check "stdout=pipe without reader" "$tmp/b.err" "$(cat "$tmp/b.rc")"

# Case C: same for build (the default subcommand).
"$P" build --color=never --arrows=ascii bad.pn >/dev/full 2>"$tmp/c.err"
check "build, stdout=/dev/full" "$tmp/c.err" $?

exit $defect
