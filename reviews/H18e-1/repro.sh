#!/bin/sh
# usage: repro.sh /path/to/penne
# `penne run` does not hand its standard input to the program: the program
# always sees an empty stdin, so the "program's exit status" that is shown (and
# the output that is passed through) is not that of the program on the input the
# user supplied. The same program built with `penne build` sees the input.
PENNE=${1:?path of penne binary}
PENNE=$(readlink -f "$PENNE")
HERE=$(cd "$(dirname "$0")" && pwd)
export RUST_BACKTRACE=0
WORK=$(mktemp -d)
trap 'rm -rf "$WORK"' EXIT
cd "$WORK" || exit 2
cp "$HERE/count.pn" .

# count.pn returns the number of bytes it can read from stdin.
RUN_OUT=$(printf 'hello\n' | "$PENNE" run --color=never count.pn 2>&1)
RUN_RC=$?
SHOWN=$(printf '%s\n' "$RUN_OUT" | sed -n 's/^Output: //p' | tail -1)
echo "penne run  : exit=$RUN_RC, shown status: '$SHOWN'"

"$PENNE" build --silent count.pn -o count.exe >/dev/null 2>&1
BUILD_RC=$?
if [ $BUILD_RC -ne 0 ] || [ ! -x count.exe ]; then
	echo "could not build the reference executable (clang missing?) rc=$BUILD_RC"
	exit 2
fi
printf 'hello\n' | ./count.exe
EXE_RC=$?
echo "built exe  : exit status $EXE_RC for the same 6 bytes of input"

if [ "$RUN_RC" -eq 0 ] && [ "$SHOWN" = "0" ] && [ "$EXE_RC" -eq 6 ]; then
	echo "DEFECT: under 'penne run' the program saw an empty stdin (status 0 shown, 6 expected)"
	exit 1
fi
if [ "$SHOWN" = "6" ]; then
	echo "ok: stdin reached the program"
	exit 0
fi
echo "unexpected observation"
exit 0
