#!/bin/bash
# Finding 2: `penne fuzz tokens --kb 0` reports success and writes a ZERO-BYTE
# file, which both lexers reject with a lexical error (UnexpectedZeroByteFile,
# E101).   Usage: repro.sh /path/to/penne      exits 1 when the defect shows.
PENNE=$(readlink -f "$1")
HERE=$(cd "$(dirname "$0")" && pwd)
export RUST_BACKTRACE=0
TMP=$(mktemp -d)
bad=0
"$PENNE" fuzz tokens --kb 0 --out-dir "$TMP" --color=never
rc=$?
echo "exit status of 'penne fuzz tokens --kb 0': $rc"
if [ ! -e "$TMP/fuzzed_tokens.pn" ]; then echo "no file written"; rm -rf "$TMP"; exit 0; fi
size=$(stat -c %s "$TMP/fuzzed_tokens.pn")
echo "size of fuzzed_tokens.pn: $size bytes"
echo "-- alpha pipeline (penne emit) on the generated file:"
"$PENNE" emit --color=never --arrows=ascii --out-dir "$TMP/out" "$TMP/fuzzed_tokens.pn" 2>&1 | grep -v '^$' | head -8
"$PENNE" emit --color=never --out-dir "$TMP/out" "$TMP/fuzzed_tokens.pn" 2>&1 | grep -q 'E101' && [ $rc = 0 ] && bad=1
if LEXCHECK=$("$HERE/../tools/get_lexcheck.sh" "$PENNE" 2>/dev/null); then
	echo "-- both lexers through the library:"
	"$LEXCHECK" file "$TMP/fuzzed_tokens.pn"
	"$LEXCHECK" file "$TMP/fuzzed_tokens.pn" | grep -q "lexical error" && [ $rc = 0 ] && bad=1
fi
rm -rf "$TMP"
if [ $bad = 1 ]; then echo "DEFECT: successful run produced a file that does not lex"; exit 1; fi
echo "no defect seen"; exit 0
