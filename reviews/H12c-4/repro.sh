#!/bin/bash
# usage: repro.sh /path/to/penne
# Library-API reproduction: the penne binary is only used to show what the CLI
# does with the same files; the defect is in penne::alpha::Compiler, which is
# exercised through a small example program built with cargo from the root of
# this worktree (../..).
P=${1:?usage: repro.sh /path/to/penne}
P=$(readlink -f "$P")
here=$(cd "$(dirname "$0")" && pwd)
root=$(cd "$here/../.." && pwd)
export RUST_BACKTRACE=0
cd "$here"

echo "--- CLI: penne emit a.pn b.pn"
"$P" emit --color=never a.pn b.pn 2>&1 | grep -a -m2 'E421\|Error'

echo "--- library: building the driver (examples/h12c_seq.rs, removed afterwards)"
mkdir -p "$root/examples"
cp h12c_seq.rs "$root/examples/h12c_seq.rs"
target=${CARGO_TARGET_DIR:-$root/target-alpha}
( cd "$root" && PATH=/tmp/llvmshim:$PATH CARGO_TARGET_DIR=$target cargo build --offline --features alpha,llvm-sys --example h12c_seq >"$here/build.log" 2>&1 )
rc=$?
rm -f "$root/examples/h12c_seq.rs"
if [ $rc -ne 0 ]; then echo "could not build the driver, see build.log"; exit 2; fi
S=$target/debug/examples/h12c_seq

defect=0
run() {
	echo "--- library: one Compiler, modules $*"
	"$S" "$@" >out.txt 2>err.txt
	local status=$?
	cat out.txt
	echo "stderr: $(cat err.txt)"
	echo "exit status of the host program: $status"
	if ! grep -q 'still alive' out.txt && ! grep -q 'returned Err' out.txt; then
		echo "  -> the host program was terminated inside add_module/link_modules without an Err"
		defect=1
	fi
}
run a.pn b.pn
run a.pn b.pn c.pn
run c.pn a.pn a.pn
rm -f out.txt err.txt
if [ $defect = 1 ]; then
	echo "DEFECT: Compiler::add_module / Compiler::link_modules end the process instead of returning an error"
	exit 1
fi
echo "no defect observed"
exit 0
