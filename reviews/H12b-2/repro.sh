#!/bin/sh
# usage: repro.sh /path/to/penne      (needs clang, the default backend of `penne build`)
# The same program as one file and split over two files, built with
# `penne build --backend-args=-O1`. Both must exit with 5, as `penne run` says.
PENNE="${1:?usage: repro.sh /path/to/penne}"
HERE="$(cd "$(dirname "$0")" && pwd)"
WORK="$(mktemp -d)"
trap 'rm -rf "$WORK"' EXIT
cp "$HERE"/*.pn "$WORK/"
cd "$WORK" || exit 2
export RUST_BACKTRACE=0

echo "--- the IR of the importing module (penne emit --out-dir):"
"$PENNE" emit --color=never --out-dir out main.pn a.pn >/dev/null 2>&1
grep -n 'five' out/main.pn.ll out/a.pn.ll

mismatch=0
if grep -q 'declare fastcc i32 @five()' out/main.pn.ll \
	&& grep -q 'call i32 @five()' out/main.pn.ll
then
	echo "=> the callee is fastcc, the call site is ccc"
	mismatch=1
fi

"$PENNE" run --color=never single.pn 2>&1 | grep Output | sed 's/^/penne run single.pn:        /'
"$PENNE" run --color=never main.pn a.pn 2>&1 | grep Output | sed 's/^/penne run main.pn a.pn:     /'

bad=0
for level in -O0 -O1 -O2
do
	"$PENNE" build --color=never --backend-args=$level -o single.bin single.pn >/dev/null 2>&1 || echo "build single failed"
	"$PENNE" build --color=never --backend-args=$level -o split.bin main.pn a.pn >/dev/null 2>&1 || echo "build split failed"
	./single.bin; s=$?
	./split.bin; m=$?
	echo "penne build --backend-args=$level: single file exits with $s, split program exits with $m (expected 5 and 5)"
	[ "$s" = 5 ] && [ "$m" = 5 ] || bad=1
done

if [ $bad -ne 0 ]
then
	echo "DEFECT: an optimised build does not behave like the program (and single file and split program differ)"
	exit 1
fi
if [ $mismatch -ne 0 ]
then
	echo "DEFECT (latent): calling conventions of caller and callee differ, the behaviour is undefined"
	exit 1
fi
echo "ok"
exit 0
