#!/bin/bash
# usage: repro.sh /path/to/penne
# Exits 1 when an integer literal is silently truncated (visible in the IR)
# without the L1142 "Integer literal truncation" lint that the same literal
# gets in a `var` declaration.
P=$(readlink -f "${1:?path to penne binary}")
cd "$(dirname "$0")"
export RUST_BACKTRACE=0
bad=0
rm -rf out; mkdir out

count() { grep -c '^\[L1142\]' "$1"; }

"$P" emit --color=never --out-dir out control.pn >out/control.txt 2>&1
echo "control.pn: exit $?, L1142 lints: $(count out/control.txt) (expected 2: 382 as i8, 4294967298 as i32)"
grep -n 'store i8 126\|store i32 2' out/control.pn.ll | sed 's/^/    IR: /'

"$P" emit --color=never --out-dir out condition.pn >out/condition.txt 2>&1
rc=$?
n=$(count out/condition.txt)
echo "condition.pn (if x == 382, x: i8): exit $rc, L1142 lints: $n"
grep -n 'icmp' out/condition.pn.ll | sed 's/^/    IR: /'
if grep -q 'icmp eq i8 %[0-9]*, 126' out/condition.pn.ll && [ "$n" = 0 ]; then
	echo "    DEFECT: 382 was truncated to 126 in the comparison and nothing was reported"; bad=1
fi

"$P" emit --color=never --out-dir out return_value.pn >out/return_value.txt 2>&1
rc=$?
n=$(count out/return_value.txt)
echo "return_value.pn (return: 4294967298 from fn -> i32): exit $rc, L1142 lints: $n"
grep -n 'ret i32' out/return_value.pn.ll | sed 's/^/    IR: /'
if grep -q 'ret i32 2' out/return_value.pn.ll && [ "$n" = 0 ]; then
	echo "    DEFECT: 4294967298 was truncated to 2 in the return value and nothing was reported"; bad=1
fi

"$P" emit --wasm --color=never --out-dir out wasm_usize.pn >out/wasm_usize.txt 2>&1
rc=$?
n=$(count out/wasm_usize.txt)
echo "wasm_usize.pn with --wasm (usize and pointers are 32 bits): exit $rc, L1142 lints: $n"
grep -n 'store' out/wasm_usize.pn.ll | sed 's/^/    IR: /'
if grep -q 'store i32 1, i32\* %len' out/wasm_usize.pn.ll && [ "$n" = 0 ]; then
	echo "    DEFECT: 4294967297 was truncated to 1 (and the address 0x100000002 to 2) and nothing was reported"; bad=1
fi

# the list of lints is at least stable
for i in $(seq 1 20); do "$P" emit --color=never condition.pn return_value.pn 2>&1 | md5sum; done | sort -u | wc -l | sed 's/^/distinct outputs over 20 runs: /'
rm -rf out
exit $bad
