#!/bin/sh
# usage: repro.sh /path/to/penne   (alpha build)
# exits 1 when the defect shows, 0 when it does not
PENNE=${1:?usage: repro.sh /path/to/penne}
cd "$(dirname "$0")" || exit 2
export RUST_BACKTRACE=0
bad=0

run() { "$PENNE" run --color=never "$@" 2>&1 | grep -v '^$'; }
output_of() { run "$@" | sed -n 's/^Output: //p'; }

echo "## case 1: value of an imported constant"
echo "a.pn: const A = 5 (private); pub const B = A + 1; pub fn get_b() returns B"
echo "main.pn: imports a.pn, has its own private const A = 100, returns B - get_b()"
echo "expected: 0 (B is 6 everywhere) in every file order"
for order in "main.pn a.pn" "a.pn main.pn"; do
	out=$(output_of $order)
	echo "penne run $order -> Output: ${out:-<none>}"
	if [ "$out" != "0" ]; then bad=1; fi
done

echo
echo "## case 2: layout of an imported structure"
echo "layout_a.pn: const N = 4 (private); pub struct S { d: [N]i32, tail: i32 }; pub fn tail_of(s: S) returns s.tail"
echo "layout_main.pn: imports it, has its own private const N = 1, builds S { d: [11], tail: 77 }, returns tail_of(s)"
echo "expected: 77, or a compile error for the 1-element literal; not a different number"
for order in "layout_main.pn layout_a.pn" "layout_a.pn layout_main.pn"; do
	full=$(run $order)
	out=$(echo "$full" | sed -n 's/^Output: //p')
	if [ -n "$out" ]; then
		echo "penne run $order -> Output: $out"
		if [ "$out" != "77" ]; then bad=1; fi
	else
		echo "penne run $order -> rejected:"
		echo "$full" | head -8
	fi
done

echo
echo "## case 3: same as case 1, but the capturing constant comes from a third, unrelated module"
echo "x.pn: pub const A = 100; main_via_third.pn imports a.pn and x.pn and returns B - get_b()"
echo "expected: 0"
for order in "main_via_third.pn a.pn x.pn" "x.pn a.pn main_via_third.pn"; do
	out=$(output_of $order)
	echo "penne run $order -> Output: ${out:-<none>}"
	if [ "$out" != "0" ]; then bad=1; fi
done

echo
if [ $bad = 1 ]; then
	echo "DEFECT: an imported declaration was re-interpreted with a same-named constant that is visible in the importer"
	exit 1
fi
echo "no defect observed"
exit 0
