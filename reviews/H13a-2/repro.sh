#!/bin/bash
# Usage: repro.sh /path/to/penne
# Exits 1 when the defect shows: the `file:line:column` reported in the header
# of the E335 diagnostic is on a line that is not part of the labelled snippet
# (no label of the diagnostic is placed at the reported location).
P=${1:?path to penne binary}
cd "$(dirname "$0")" || exit 2
export RUST_BACKTRACE=0
bad=0
for f in minimal.pn far.pn same_line.pn
do
	out=$("$P" emit --color=never --arrows=ascii "$f" 2>&1)
	header=$(echo "$out" | grep -m1 -o -- "-\[ $f:[0-9]*:[0-9]* \]" | sed -e "s/-\[ $f://" -e 's/ \]//')
	hline=${header%%:*}
	hcol=${header##*:}
	shown=$(echo "$out" | grep -E '^ *[0-9]+ \| ' | sed -E 's/^ *([0-9]+) \|.*/\1/' | tr '\n' ' ')
	echo "== $f: code $(echo "$out" | grep -o -m1 '\[E[0-9]*\]'), header says $header, snippet shows line(s): $shown"
	echo "$out" | grep -E '^ *[0-9]+ \| |\^'
	if ! echo " $shown" | grep -q " $hline "
	then
		echo "   DEFECT: reported line $hline is not among the labelled lines ($shown)"
		bad=1
	elif [ "$f" == same_line.pn ]
	then
		# The source row is "<tab>return: }": tab is rendered as 4 columns.
		# Labels cover characters 2..9 (`return:` plus the position after it);
		# the header column must fall inside them.
		if [ "$hcol" -gt 9 ]
		then
			echo "   DEFECT: reported column $hcol is outside the labelled span (columns 2-9)"
			bad=1
		fi
	fi
done
exit $bad
