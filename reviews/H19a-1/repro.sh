#!/bin/bash
# Finding 1: the generator's `return` keyword is a different lexeme for the two
# lexers; `return!` is ONE token for alpha (Builtin) and TWO for delta.
# Usage: repro.sh /path/to/penne      exits 1 when the defect shows.
PENNE=$(readlink -f "$1")
HERE=$(cd "$(dirname "$0")" && pwd)
export RUST_BACKTRACE=0
LEXCHECK=$("$HERE/../tools/get_lexcheck.sh" "$PENNE") || exit 2
unset NORM_RETURN
bad=0

echo "== 1. minimal input: return_bang.pn contains exactly: $(cat "$HERE/return_bang.pn")"
"$LEXCHECK" file "$HERE/return_bang.pn" && true
"$LEXCHECK" file "$HERE/return_bang.pn" | grep -q "differs" && bad=1
echo "   alpha token dump by the CLI:"
"$PENNE" emit --verbose --color=never "$HERE/return_bang.pn" 2>&1 | grep -m1 '^Builtin\|^Identifier'

echo "== 2. saved generator output (penne fuzz tokens --kb 1): fuzzed_tokens_kb1.pn"
"$LEXCHECK" file "$HERE/fuzzed_tokens_kb1.pn"
"$LEXCHECK" file "$HERE/fuzzed_tokens_kb1.pn" | grep -q "differs" && bad=1

echo "== 3. 40 fresh outputs at --kb 8"
TMP=$(mktemp -d)
kind=0; count=0
for i in $(seq 1 40); do
	"$PENNE" fuzz tokens --kb 8 --out-dir "$TMP" --silent || { echo "fuzz failed"; exit 2; }
	out=$("$LEXCHECK" file "$TMP/fuzzed_tokens.pn")
	echo "$out" | grep -q "lexical error" && echo "$out"
	echo "$out" | grep -q "kind differs" && kind=$((kind+1))
	echo "$out" | grep -q "token count differs" && count=$((count+1))
done
rm -rf "$TMP"
echo "   outputs on whose token KINDS the two lexers disagree:  $kind / 40"
echo "   outputs on whose token COUNT the two lexers disagree:  $count / 40"
[ $kind -gt 0 ] && bad=1
[ $count -gt 0 ] && bad=1

if [ $bad = 1 ]; then echo "DEFECT: lexers disagree on generator output"; exit 1; fi
echo "no disagreement seen"; exit 0
