#!/bin/bash
# Usage: repro.sh /path/to/penne [path/to/docs/errors.md]
# Exits 1 when the defect shows: penne emits a diagnostic whose code has no
# section in the published catalogue docs/errors.md.
P=${1:?path to penne binary}
here=$(cd "$(dirname "$0")" && pwd)
DOC=${2:-$here/../../docs/errors.md}
cd "$here" || exit 2
export RUST_BACKTRACE=0
if [ ! -f "$DOC" ]
then
	echo "cannot find docs/errors.md (pass it as the second argument)"
	exit 2
fi
bad=0
for f in e163.pn e390.pn e580.pn e583.pn l1142.pn
do
	for color in never always
	do
		for arrows in ascii unicode
		do
			"$P" emit --color=$color --arrows=$arrows "$f" >/dev/null 2>err.txt
			if grep -q -i 'panicked\|Unable to fetch' err.txt
			then
				echo "RENDER FAILURE $f --color=$color --arrows=$arrows"
				bad=1
			fi
		done
	done
	codes=$("$P" emit --color=never --arrows=ascii "$f" 2>&1 | grep -o -E '^\[[EL][0-9]+\]' | tr -d '[]' | sort -u)
	for code in $codes
	do
		if grep -q -E "^#+ .*\b$code\b" "$DOC"
		then
			echo "ok      $f: $code has a section in docs/errors.md"
		else
			msg=$("$P" emit --color=never --arrows=ascii "$f" 2>&1 | grep -m1 -E "^\[$code\]")
			echo "DEFECT  $f: emitted '$msg' but docs/errors.md has no section for $code"
			bad=1
		fi
	done
done
rm -f err.txt
exit $bad
