#!/bin/sh
# usage: repro.sh /path/to/penne   (alpha build)
# exits 1 when the defect shows, 0 when it does not
PENNE=${1:?usage: repro.sh /path/to/penne}
cd "$(dirname "$0")" || exit 2
export RUST_BACKTRACE=0
bad=0

run() { "$PENNE" run --color=never "$@" 2>&1 | grep -v '^$'; }

# check NAME EXPECTED SINGLE -- ORDER...   (each ORDER is one quoted list of files)
check()
{
	name=$1; expected=$2; single=$3; shift 3
	echo "## $name"
	out=$(run $single | sed -n 's/^Output: //p')
	echo "single-file program: penne run $single -> Output: ${out:-<none>}"
	if [ "$out" != "$expected" ]; then echo "(unexpected: the single-file program should give $expected)"; fi
	for order in "$@"; do
		full=$(run $order)
		out=$(echo "$full" | sed -n 's/^Output: //p')
		if [ "$out" = "$expected" ]; then
			echo "split program:       penne run $order -> Output: $out"
		else
			bad=1
			echo "split program:       penne run $order -> NOT the same as the single-file program:"
			echo "$full" | head -9 | sed 's/^/    /'
		fi
	done
	echo
}

check "private constant used by a pub constant (a.pn keeps A private, exports B = A + 1)" 6 single.pn \
	"main.pn a.pn" "a.pn main.pn"
check "pub constant that uses a constant its module imported (t_main -> t_b -> t_c)" 6 t_single.pn \
	"t_main.pn t_b.pn t_c.pn" "t_c.pn t_b.pn t_main.pn" "t_b.pn t_main.pn t_c.pn"
check "pub word whose members are of a type its module imported (s_main -> s_line -> s_position)" 200 s_single.pn \
	"s_main.pn s_line.pn s_position.pn" "s_position.pn s_line.pn s_main.pn"

echo "each of a.pn, t_b.pn (with t_c.pn) and s_line.pn (with s_position.pn) is accepted when main is left out:"
for files in "a.pn" "t_b.pn t_c.pn" "s_line.pn s_position.pn"; do
	if "$PENNE" emit --color=never $files >/dev/null 2>&1; then echo "penne emit $files -> ok"; else echo "penne emit $files -> FAILED"; fi
done
echo

if [ $bad = 1 ]; then
	echo "DEFECT: a correctly split program is rejected (the error is reported inside the imported file)"
	exit 1
fi
echo "no defect observed"
exit 0
