#!/bin/bash
# usage: repro.sh /path/to/penne   (alpha build)
# Exits 1 when the defect shows, 0 when it does not.
PENNE="$1"
[ -x "$PENNE" ] || { echo "usage: $0 /path/to/penne"; exit 2; }
export RUST_BACKTRACE=0
cd "$(dirname "$0")"
defect=0
run() { "$PENNE" emit --color=never --arrows=ascii "$@" 2>&1 | grep -v '^$'; }

check() # file code line_of_path col_of_path
{
	out=$(run "$1"); echo "$out"
	header=$(echo "$out" | grep -o ",-\[ $1:[0-9]*:[0-9]* \]" | head -1)
	line=$(echo "$header" | sed 's/.*:\([0-9]*\):\([0-9]*\) \]/\1/')
	col=$(echo "$header" | sed 's/.*:\([0-9]*\):\([0-9]*\) \]/\2/')
	if echo "$out" | grep -q "^\[$2\]" && { [ "$line" != "$3" ] || [ "$col" != "$4" ]; }
	then
		echo "DEFECT: [$2] is reported at $1:$line:$col; the path it complains about is at $1:$3:$4"
		defect=1
	fi
	echo
}
check e470_multiline.pn E470 5 2
check e470_pub.pn       E470 1 12
check e477_multiline.pn E477 2 2
exit $defect
