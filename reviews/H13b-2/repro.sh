#!/bin/sh
# usage: repro.sh /path/to/penne
# Exits 1 when the defect shows: a source file that is not valid UTF-8 is
# rejected without any [Ennn] report and without a location (and with the
# misleading text "Failed to open").
PENNE="$1"
HERE="$(cd "$(dirname "$0")" && pwd)"
export RUST_BACKTRACE=0
defect=0
for f in latin1_in_comment.pn latin1_in_string.pn cyrillic_string_in_cp1251_file.pn unicode_string_in_ucs2_file.pn control_utf8_in_comment.pn
do
	out="$("$PENNE" emit --color=never "$HERE/$f" 2>&1)"
	status=$?
	reports=$(printf '%s\n' "$out" | grep -c '\[[EL][0-9][0-9]*\]')
	located=$(printf '%s\n' "$out" | grep -c "$f:[0-9][0-9]*:[0-9][0-9]*")
	echo "$f: exit status $status, coded reports: $reports, located headers: $located"
	if [ "$status" -ne 0 ] && [ "$reports" -eq 0 ]
	then
		echo "    DEFECT: rejected without code or location; complete output was:"
		printf '%s\n' "$out" | sed 's/^/    | /'
		defect=1
	fi
done
exit $defect
