#!/bin/bash
# usage: repro.sh /path/to/penne
# The IR that `penne emit --out-dir` writes for a module depends on which
# unrelated modules were compiled before it: u2.pn does not import u1.pn, yet
# u2.pn.ll differs when u1.pn precedes it on the command line (and therefore
# also with the order of the files).
P=${1:?usage: repro.sh /path/to/penne}
export RUST_BACKTRACE=0
cd "$(dirname "$0")" || exit 2
rm -rf od_alone od_after od_before
"$P" emit --out-dir od_alone u2.pn u3.pn >/dev/null 2>&1 || { echo "emit failed"; exit 2; }
"$P" emit --out-dir od_after u1.pn u2.pn u3.pn >/dev/null 2>&1 || { echo "emit failed"; exit 2; }
"$P" emit --out-dir od_before u2.pn u3.pn u1.pn >/dev/null 2>&1 || { echo "emit failed"; exit 2; }
bad=0
echo "== u2.pn.ll: compiled alone vs. after the unrelated u1.pn"
if diff od_alone/u2.pn.ll od_after/u2.pn.ll; then echo "   identical"; else echo "   DEFECT: differs"; bad=1; fi
echo "== u3.pn.ll (imports only u2.pn): alone vs. after the unrelated u1.pn"
if diff od_alone/u3.pn.ll od_after/u3.pn.ll >/dev/null; then echo "   identical"; else echo "   differs as well"; fi
echo "== u2.pn.ll: 'u1.pn u2.pn u3.pn' vs. 'u2.pn u3.pn u1.pn' (same files, other order)"
if diff -q od_after/u2.pn.ll od_before/u2.pn.ll >/dev/null; then echo "   identical"; else echo "   DEFECT: differs with the order of the files"; bad=1; fi
# The programs behave the same; the difference is in the names of the types.
for o in "u2.pn u3.pn" "u1.pn u2.pn u3.pn" "u2.pn u3.pn u1.pn"; do
	echo "penne run $o -> $("$P" run --color=never $o 2>&1 </dev/null | grep -E '^Output|rror' | tr '\n' ' ')"
done
rm -rf od_alone od_after od_before
exit $bad
