#!/bin/bash
# usage: repro.sh /path/to/penne
# Defect: `penne run` exits 0 and prints "Output: N ... Done." when the backend
# itself failed and the program never ran.
PENNE=$(readlink -f "$1"); HERE=$(cd "$(dirname "$0")" && pwd)
export RUST_BACKTRACE=0
cd "$HERE"
defect=0
echo "== case A: stand-in backend that reads the IR, reports an internal error, exits 70"
"$PENNE" run --color=never --backend "$HERE/failing_backend.sh" five.pn; rc=$?
echo "exit status: $rc"
[ $rc -eq 0 ] && { echo "DEFECT: backend failed, penne exit 0"; defect=1; }
echo "== case B: real lli, rejected option (lli prints usage error, runs nothing)"
"$PENNE" run --color=never --backend-args=--bogus five.pn; rc=$?
echo "exit status: $rc"
[ $rc -eq 0 ] && { echo "DEFECT: backend failed, penne exit 0"; defect=1; }
echo "== case C: real lli, module without main (lli: Symbols not found)"
"$PENNE" run --color=never nomain.pn; rc=$?
echo "exit status: $rc"
[ $rc -eq 0 ] && { echo "DEFECT: backend failed, penne exit 0"; defect=1; }
echo "== case D: same as A with --silent: penne itself says nothing and exits 0"
out=$("$PENNE" run --silent --backend "$HERE/failing_backend.sh" five.pn 2>/dev/null); rc=$?
echo "penne stdout: '$out' exit status: $rc"
[ $rc -eq 0 ] && [ -z "$out" ] && { echo "DEFECT: failure completely invisible"; defect=1; }
exit $defect
