#!/bin/bash
# usage: repro.sh /path/to/penne
# Defect: two modules whose names differ only in the extension (x.pn, x.txt)
# are both written to D/x.pn.ll; the second silently overwrites the first; exit 0.
PENNE=$(readlink -f "$1"); HERE=$(cd "$(dirname "$0")" && pwd)
export RUST_BACKTRACE=0
T=$(mktemp -d); trap 'rm -rf "$T"' EXIT
cp "$HERE/x.pn" "$HERE/x.txt" "$T/"; cd "$T"
"$PENNE" emit --color=never --out-dir out x.pn x.txt; rc=$?
echo "exit status: $rc"
echo "artefacts:"; find out -type f
n=$(find out -name '*.pn.ll' | wc -l)
echo "ModuleID lines:"; grep -h ModuleID out/*.pn.ll
echo "defines of main in artefacts: $(grep -l 'define.*@main' out/*.pn.ll 2>/dev/null | wc -l)"
if [ $rc -eq 0 ] && [ "$n" -lt 2 ]; then
	echo "DEFECT: exit 0, 2 modules compiled, but only $n .pn.ll file(s); IR of module x.pn (main) is lost"
	exit 1
fi
exit 0
