#!/bin/sh
# usage: repro.sh /path/to/penne
# `penne emit --wasm` on two modules: the per-module IR written to --out-dir
# claims the host triple, the linked IR claims wasm32, and every module makes
# LLVM warn while linking.
PENNE="${1:?usage: repro.sh /path/to/penne}"
HERE="$(cd "$(dirname "$0")" && pwd)"
WORK="$(mktemp -d)"
trap 'rm -rf "$WORK"' EXIT
cp "$HERE/main.pn" "$HERE/a.pn" "$WORK/"
cd "$WORK" || exit 2
export RUST_BACKTRACE=0

"$PENNE" emit --wasm --color=never --verbose --out-dir out main.pn a.pn \
	>stdout.txt 2>stderr.txt
status=$?
echo "penne emit --wasm: exit status $status"
[ $status -eq 0 ] || { cat stdout.txt stderr.txt; exit 2; }

bad=0
for f in out/main.pn.ll out/a.pn.ll
do
	triple="$(grep '^target triple' "$f")"
	layout="$(grep '^target datalayout' "$f")"
	echo "$f: $triple / $layout"
	case "$triple" in
		*wasm32-unknown-wasi*) ;;
		*) bad=1 ;;
	esac
done

linked="$(sed -n '/^Linking modules/,$p' stdout.txt | grep '^target triple')"
echo "linked IR (what build/run would hand to the backend): $linked"

warnings="$(grep -c 'Linking two modules of different target triples' stderr.txt)"
echo "LLVM linker warnings on stderr: $warnings"
[ "$warnings" -eq 0 ] || bad=1

if command -v llvm-link >/dev/null 2>&1
then
	llvm-link -S out/main.pn.ll out/a.pn.ll -o hand.ll 2>hand.err
	echo "hand-linked per-module IR: $(grep '^target triple' hand.ll)"
fi

if [ $bad -ne 0 ]
then
	echo "DEFECT: with --wasm the per-module IR does not target wasm32 (and linking warns)"
	exit 1
fi
echo "ok: every module targets wasm32-unknown-wasi"
exit 0
