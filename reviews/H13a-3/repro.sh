#!/bin/bash
# Usage: repro.sh /path/to/penne
# Exits 1 when the defect shows: a failing compilation whose only diagnostic
# carries no error code from docs/errors.md and no source location.
P=${1:?path to penne binary}
cd "$(dirname "$0")" || exit 2
export RUST_BACKTRACE=0
bad=0
check()
{
	"$P" emit --color=never --arrows=ascii "$@" > stdout.txt 2> stderr.txt
	rc=$?
	echo "== penne emit $*  -> exit status $rc"
	grep -v '^$' stderr.txt | sed 's/^/   stderr: /'
	grep -v '^$' stdout.txt | sed 's/^/   stdout: /'
	if [ $rc -ne 0 ]
	then
		if grep -q -E '^\[[EL][0-9]+\] ' stderr.txt && grep -q -E -- '-\[ .*:[0-9]+:[0-9]+ \]' stderr.txt
		then
			echo "   ok: failure is explained by a coded, located diagnostic"
		else
			echo "   DEFECT: compilation failed without any coded and located diagnostic"
			bad=1
		fi
	fi
	rm -f stdout.txt stderr.txt
}
# Two modules that each define a public function `foo`, neither imports the other.
check a.pn b.pn
# Two modules that each define `main`.
check main1.pn main2.pn
# The same file given twice.
check a.pn a.pn
# Control: the same clash is diagnosed properly (E421) when one module imports the other.
check a.pn b_importing_a.pn
exit $bad
