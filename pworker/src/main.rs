//! pworker -- thin driver around the REAL penne library, used by the
//! simulation engines in /verif. It contains no model of penne: every verdict
//! it prints comes from calling penne's own public API.
//!
//!   pworker lexcheck <file>...                 both lexers on each file
//!   pworker fuzz <kb> <dir> <seed> <start> <n> in-process token fuzzer runs,
//!                                              one fresh thread + one entropy
//!                                              stream per run (needs simos.so)
//!   pworker history <spec.json>                module histories through one
//!                                              `Compiler` (+ fresh references)
//!
//! Output is JSON lines on stdout, flushed line by line, so that a process
//! that LLVM aborts still leaves the prefix of its history behind.

use penne::alpha::common;
use penne::alpha::expander;
use penne::alpha::lexer as alexer;
use penne::alpha::parser;
use penne::alpha::resolver;
use penne::alpha::scoper;
use penne::alpha::Compiler;
use penne::delta::fuzzer;
use penne::delta::lexer as dlexer;

use serde_json::json;
use std::io::Write;

fn emit(value: serde_json::Value)
{
	let stdout = std::io::stdout();
	let mut lock = stdout.lock();
	let _ = writeln!(lock, "{}", value);
	let _ = lock.flush();
}

fn splitmix64(state: &mut u64) -> u64
{
	*state = state.wrapping_add(0x9E3779B97F4A7C15);
	let mut z = *state;
	z = (z ^ (z >> 30)).wrapping_mul(0xBF58476D1CE4E5B9);
	z = (z ^ (z >> 27)).wrapping_mul(0x94D049BB133111EB);
	z ^ (z >> 31)
}

/// Same function as `mix` in sim/common.py.
fn mix(a: u64, b: u64) -> u64
{
	let mut s = a;
	let x = splitmix64(&mut s);
	let mut t = x ^ b;
	splitmix64(&mut t)
}

fn fnv1a(bytes: &[u8]) -> u64
{
	let mut h: u64 = 0xcbf29ce484222325;
	for b in bytes
	{
		h ^= *b as u64;
		h = h.wrapping_mul(0x100000001b3);
	}
	h
}

const NUM_KINDS: usize = 80;

#[derive(Default)]
struct LexStats
{
	kinds: Vec<u64>,
	glued: std::collections::BTreeSet<(u8, u8)>,
}

struct LexVerdict
{
	utf8: bool,
	len: usize,
	delta_codes: Vec<u16>,
	delta_first: Option<String>,
	alpha_errors: usize,
	alpha_first: Option<String>,
	num_tokens: usize,
}

fn lexcheck_bytes(bytes: &[u8], stats: Option<&mut LexStats>) -> LexVerdict
{
	let text = std::str::from_utf8(bytes);
	let tokens = dlexer::lex(bytes, "f.pn");
	let (delta_codes, delta_first) = match tokens.errors()
	{
		Some(errors) =>
		{
			let codes = errors.codes();
			let first = errors.errors.first().map(|e| format!("{:?}", e));
			(codes, first)
		}
		None => (Vec::new(), None),
	};
	let base = tokens.base_tokens();
	let num_tokens = base.len();
	if let Some(stats) = stats
	{
		if stats.kinds.len() < NUM_KINDS
		{
			stats.kinds.resize(NUM_KINDS, 0);
		}
		if num_tokens > 0
		{
			let mut id = tokens.first_token_id();
			let mut prev: Option<(u8, usize)> = None;
			for &kind in base
			{
				let k = kind as u8;
				if (k as usize) < NUM_KINDS
				{
					stats.kinds[k as usize] += 1;
				}
				let location = tokens.get_location(id);
				if let Some((pk, pend)) = prev
				{
					if pend == location.span.start
						&& kind != dlexer::BaseToken::EndOfSource
					{
						stats.glued.insert((pk, k));
					}
				}
				prev = Some((k, location.span.end));
				tokens.advance(&mut id);
			}
		}
	}
	let (alpha_errors, alpha_first) = match text
	{
		Ok(text) =>
		{
			let lexed = alexer::lex(text, "f.pn");
			let mut n = 0;
			let mut first = None;
			for token in &lexed
			{
				if let Err(error) = &token.result
				{
					n += 1;
					if first.is_none()
					{
						first = Some(format!(
							"{:?} at {:?}",
							error, token.location
						));
					}
				}
			}
			(n, first)
		}
		Err(_) => (0, None),
	};
	LexVerdict {
		utf8: text.is_ok(),
		len: bytes.len(),
		delta_codes,
		delta_first,
		alpha_errors,
		alpha_first,
		num_tokens,
	}
}

fn verdict_json(v: &LexVerdict) -> serde_json::Value
{
	json!({
		"utf8": v.utf8,
		"len": v.len,
		"delta_codes": v.delta_codes,
		"delta_first": v.delta_first,
		"alpha_errors": v.alpha_errors,
		"alpha_first": v.alpha_first,
		"num_tokens": v.num_tokens,
	})
}

fn stats_json(stats: &LexStats) -> serde_json::Value
{
	let mut kinds = serde_json::Map::new();
	for (i, n) in stats.kinds.iter().enumerate()
	{
		if *n > 0
		{
			let name = match dlexer::BaseToken::from_repr(i as u8)
			{
				Some(kind) => format!("{:?}", kind),
				None => format!("#{}", i),
			};
			kinds.insert(name, json!(n));
		}
	}
	let glued: Vec<String> = stats
		.glued
		.iter()
		.map(|(a, b)| {
			format!(
				"{:?}+{:?}",
				dlexer::BaseToken::from_repr(*a).unwrap(),
				dlexer::BaseToken::from_repr(*b).unwrap()
			)
		})
		.collect();
	json!({ "kinds": kinds, "glued_pairs": glued })
}

fn cmd_lexcheck(args: &[String]) -> i32
{
	for filename in args
	{
		let bytes = match std::fs::read(filename)
		{
			Ok(bytes) => bytes,
			Err(error) =>
			{
				emit(json!({"file": filename, "io_error": error.to_string()}));
				continue;
			}
		};
		let mut stats = LexStats::default();
		let verdict = std::panic::catch_unwind(std::panic::AssertUnwindSafe(
			|| lexcheck_bytes(&bytes, Some(&mut stats)),
		));
		match verdict
		{
			Ok(v) =>
			{
				let mut value = verdict_json(&v);
				value["file"] = json!(filename);
				value["fnv"] = json!(format!("{:016x}", fnv1a(&bytes)));
				value["stats"] = stats_json(&stats);
				emit(value);
			}
			Err(_) => emit(json!({"file": filename, "lexer_panic": true})),
		}
	}
	0
}

type ReseedFn = unsafe extern "C" fn(u64);

fn find_reseed() -> Option<ReseedFn>
{
	let name = std::ffi::CString::new("simos_reseed").unwrap();
	let sym = unsafe { libc::dlsym(libc::RTLD_DEFAULT, name.as_ptr()) };
	if sym.is_null()
	{
		None
	}
	else
	{
		Some(unsafe { std::mem::transmute::<*mut libc::c_void, ReseedFn>(sym) })
	}
}

fn cmd_fuzz(args: &[String]) -> i32
{
	if args.len() < 5
	{
		eprintln!("usage: pworker fuzz <kb> <dir> <seed> <start> <n>");
		return 2;
	}
	let kb: usize = args[0].parse().unwrap();
	let dir = std::path::PathBuf::from(&args[1]);
	let seed: u64 = args[2].parse().unwrap();
	let start: u64 = args[3].parse().unwrap();
	let n: u64 = args[4].parse().unwrap();
	let reseed = match find_reseed()
	{
		Some(f) => f,
		None =>
		{
			eprintln!("pworker fuzz: simos.so is not loaded (no entropy seam)");
			return 2;
		}
	};
	let mut stats = LexStats::default();
	let mut combined: u64 = 0;
	let mut distinct = std::collections::HashSet::new();
	let mut total_bytes: u64 = 0;
	let mut probes = std::collections::BTreeMap::<&'static str, u64>::new();
	let mut failures = 0;
	for i in start..start + n
	{
		let entropy = mix(seed, i);
		unsafe { reseed(entropy) };
		// A fresh thread: ThreadRng and RandomState keys are per thread and
		// are drawn (through the entropy seam) on first use.
		let handle = std::thread::spawn(move || {
			let mut buffer = String::with_capacity(kb * 1096);
			let result =
				fuzzer::fill_to_capacity_with_tokens(95, &mut buffer, 0);
			(buffer, result.map_err(|e| e.to_string()))
		});
		let (buffer, result) = match handle.join()
		{
			Ok(x) => x,
			Err(_) =>
			{
				failures += 1;
				emit(json!({"kind": "failure", "i": i, "entropy": entropy.to_string(),
					"kb": kb, "class": "fuzzer_panic"}));
				continue;
			}
		};
		if let Err(error) = result
		{
			failures += 1;
			emit(json!({"kind": "failure", "i": i, "entropy": entropy.to_string(),
				"kb": kb, "class": "fuzzer_error", "detail": error}));
			continue;
		}
		let bytes = buffer.as_bytes();
		let h = fnv1a(bytes);
		combined = mix(combined, h);
		distinct.insert(h);
		total_bytes += bytes.len() as u64;
		let verdict = std::panic::catch_unwind(std::panic::AssertUnwindSafe(
			|| lexcheck_bytes(bytes, Some(&mut stats)),
		));
		let class = match &verdict
		{
			Err(_) => Some("lexer_panic"),
			Ok(v) if !v.utf8 => Some("invalid_utf8"),
			Ok(v) if v.len < kb * 1024 => Some("too_short"),
			Ok(v) if !v.delta_codes.is_empty() => Some("invalid_lexeme_delta"),
			Ok(v) if v.alpha_errors > 0 => Some("invalid_lexeme_alpha"),
			Ok(_) => None,
		};
		*probes.entry("crlf").or_default() +=
			buffer.matches("\r\n").count() as u64;
		*probes.entry("comment").or_default() +=
			buffer.matches("//").count() as u64;
		*probes.entry("non_ascii_char").or_default() +=
			buffer.chars().filter(|c| !c.is_ascii()).count() as u64;
		*probes.entry("hex_escape").or_default() +=
			buffer.matches("\\x").count() as u64;
		*probes.entry("unicode_escape").or_default() +=
			buffer.matches("\\u{").count() as u64;
		*probes.entry("tab").or_default() +=
			buffer.matches('\t').count() as u64;
		if let Some(class) = class
		{
			failures += 1;
			let path = dir.join(format!("fail-{}-{}.pn", kb, i));
			let _ = std::fs::write(&path, bytes);
			let detail = match &verdict
			{
				Ok(v) => verdict_json(v),
				Err(_) => json!(null),
			};
			emit(json!({"kind": "failure", "i": i, "entropy": entropy.to_string(),
				"kb": kb, "class": class, "detail": detail,
				"text_file": path.to_string_lossy(),
				"fnv": format!("{:016x}", h)}));
		}
	}
	let probes: serde_json::Map<String, serde_json::Value> = probes
		.into_iter()
		.map(|(k, v)| (k.to_string(), json!(v)))
		.collect();
	emit(json!({"kind": "summary", "kb": kb, "start": start, "n": n,
		"failures": failures, "combined_fnv": format!("{:016x}", combined),
		"distinct": distinct.len(), "total_bytes": total_bytes,
		"stats": stats_json(&stats), "probes": probes}));
	0
}

#[derive(serde::Deserialize)]
struct SpecModule
{
	name: String,
	source: String,
}

#[derive(serde::Deserialize)]
struct SpecOp
{
	g: usize,
	m: usize,
	#[serde(default = "default_stop")]
	stop: String,
	#[serde(default = "default_true")]
	lints: bool,
	/// Read-only calls at unusual moments: `generate_ir()` before the module
	/// is compiled and twice after it, `take_lints()` twice.
	#[serde(default)]
	probe: bool,
}

fn default_stop() -> String
{
	"full".to_string()
}
fn default_true() -> bool
{
	true
}

#[derive(serde::Deserialize)]
struct Spec
{
	groups: Vec<Vec<SpecModule>>,
	ops: Vec<SpecOp>,
	#[serde(default = "default_true")]
	link: bool,
	#[serde(default = "default_true")]
	refs: bool,
	#[serde(default)]
	stop_on_error: bool,
	#[serde(default)]
	wasm: bool,
	/// Like the CLI: check every module for surface level errors (lexing,
	/// parsing, import expansion) before any module is analysed.
	#[serde(default)]
	surface_first: bool,
	/// Call `for_wasm()` on the long-lived Compiler right before this
	/// operation (the references of later operations come from a Compiler
	/// that was retargeted at the start).
	#[serde(default)]
	wasm_from: Option<usize>,
}

struct StepResult
{
	verdict: &'static str,
	errors: Vec<String>,
	codes: Vec<u16>,
	lints: Vec<String>,
	ir: Option<String>,
}

fn step_json(kind: &str, i: usize, op: &SpecOp, name: &str, r: &StepResult)
-> serde_json::Value
{
	json!({"kind": kind, "i": i, "g": op.g, "m": op.m, "name": name,
		"stop": op.stop, "verdict": r.verdict, "errors": r.errors,
		"codes": r.codes, "lints": r.lints, "ir": r.ir})
}

/// One module through a `Compiler`, the way `compile_to_ir_using_alpha` in
/// src/main.rs does it, optionally abandoned part-way.
fn run_step(
	compiler: &mut Compiler,
	name: &str,
	declarations: Vec<common::Declaration>,
	stop: &str,
	take_lints: bool,
	probe: bool,
) -> StepResult
{
	let mut result = StepResult {
		verdict: "ok",
		errors: Vec::new(),
		codes: Vec::new(),
		lints: Vec::new(),
		ir: None,
	};
	if let Err(errors) = resolver::check_surface_level_errors(&declarations)
	{
		result.verdict = "surface_errors";
		result.codes = errors.codes();
		result.errors =
			errors.errors.iter().map(|e| format!("{:?}", e)).collect();
		return result;
	}
	let declarations = scoper::analyze(declarations);
	if let Err(error) = compiler.add_module(name)
	{
		result.verdict = "anyhow";
		result.errors.push(error.to_string());
		return result;
	}
	if stop == "add"
	{
		result.verdict = "abandoned";
		return result;
	}
	let resolved = match compiler.analyze_and_resolve(declarations)
	{
		Ok(resolved) => resolved,
		Err(error) =>
		{
			result.verdict = "anyhow";
			result.errors.push(error.to_string());
			return result;
		}
	};
	let resolved = match resolved
	{
		Ok(resolved) => resolved,
		Err(errors) =>
		{
			result.verdict = "errors";
			result.codes = errors.codes();
			result.errors =
				errors.errors.iter().map(|e| format!("{:?}", e)).collect();
			return result;
		}
	};
	if take_lints
	{
		let lints = compiler.take_lints();
		result.lints = lints.iter().map(|e| format!("{:?}", e)).collect();
		if probe
		{
			// Lints are taken, not copied: nothing is left to take.
			let again = compiler.take_lints();
			if !again.is_empty()
			{
				result.verdict = "lints_taken_twice";
				return result;
			}
		}
	}
	if probe
	{
		// Looking at the (still empty) module's IR changes nothing.
		let _ = compiler.generate_ir();
	}
	if stop == "analyze"
	{
		result.verdict = "abandoned";
		return result;
	}
	if let Err(error) = compiler.compile(&resolved)
	{
		result.verdict = "anyhow";
		result.errors.push(error.to_string());
		return result;
	}
	match compiler.generate_ir()
	{
		Ok(ir) => result.ir = Some(ir),
		Err(error) =>
		{
			result.verdict = "anyhow";
			result.errors.push(error.to_string());
		}
	}
	if probe && result.verdict == "ok"
	{
		// Printing the IR twice prints the same IR twice.
		if compiler.generate_ir().ok() != result.ir
		{
			result.verdict = "ir_changes_when_printed";
		}
	}
	result
}

fn cmd_history(args: &[String]) -> i32
{
	let raw = std::fs::read_to_string(&args[0]).expect("spec");
	let spec: Spec = serde_json::from_str(&raw).expect("spec json");

	// Lex, parse and expand every group exactly like the CLI does.
	let mut expanded: Vec<Vec<(std::path::PathBuf, Vec<common::Declaration>)>> =
		Vec::new();
	for group in &spec.groups
	{
		let mut modules = Vec::new();
		for module in group
		{
			let tokens = alexer::lex(&module.source, &module.name);
			let declarations = parser::parse(tokens);
			let filepath = std::path::PathBuf::from(&module.name);
			modules.push((filepath, declarations));
		}
		expander::expand(&mut modules);
		expanded.push(modules);
	}

	if spec.refs
	{
		let mut seen = std::collections::BTreeSet::new();
		for (i, op) in spec.ops.iter().enumerate()
		{
			if !seen.insert((op.g, op.m))
			{
				continue;
			}
			let (path, declarations) = &expanded[op.g][op.m];
			let name = path.to_string_lossy().to_string();
			let declarations = declarations.clone();
			let full = SpecOp {
				g: op.g,
				m: op.m,
				stop: "full".to_string(),
				lints: true,
				probe: false,
			};
			let wasm = spec.wasm || spec.wasm_from.map_or(false, |k| i >= k);
			let outcome =
				std::panic::catch_unwind(std::panic::AssertUnwindSafe(|| {
					let mut compiler = Compiler::default();
					if wasm
					{
						compiler.for_wasm().unwrap();
					}
					run_step(&mut compiler, &name, declarations, "full", true, false)
				}));
			match outcome
			{
				Ok(r) => emit(step_json("ref", i, &full, &name, &r)),
				Err(_) => emit(json!({"kind": "ref", "i": i, "g": op.g,
					"m": op.m, "name": name, "verdict": "panic"})),
			}
		}
	}

	let mut compiler = Compiler::default();
	if spec.wasm
	{
		compiler.for_wasm().unwrap();
	}
	let mut stopped = false;
	if spec.surface_first
	{
		for (i, op) in spec.ops.iter().enumerate()
		{
			let (path, declarations) = &expanded[op.g][op.m];
			if let Err(errors) = resolver::check_surface_level_errors(declarations)
			{
				let name = path.to_string_lossy().to_string();
				let r = StepResult {
					verdict: "surface_errors",
					errors: errors
						.errors
						.iter()
						.map(|e| format!("{:?}", e))
						.collect(),
					codes: errors.codes(),
					lints: Vec::new(),
					ir: None,
				};
				emit(step_json("step", i, op, &name, &r));
				stopped = true;
				break;
			}
		}
	}
	if stopped
	{
		emit(json!({"kind": "done"}));
		return 0;
	}
	for (i, op) in spec.ops.iter().enumerate()
	{
		let (path, declarations) = &expanded[op.g][op.m];
		let name = path.to_string_lossy().to_string();
		let declarations = declarations.clone();
		if spec.wasm_from == Some(i)
		{
			compiler.for_wasm().unwrap();
		}
		let r = run_step(&mut compiler, &name, declarations, &op.stop, op.lints, op.probe);
		let failed = r.verdict != "ok" && r.verdict != "abandoned";
		emit(step_json("step", i, op, &name, &r));
		if failed && spec.stop_on_error
		{
			stopped = true;
			break;
		}
	}
	if spec.link && !stopped
	{
		match compiler.link_modules().and_then(|_| compiler.generate_ir())
		{
			Ok(ir) => emit(json!({"kind": "linked", "ir": ir})),
			Err(error) =>
			{
				emit(json!({"kind": "linked", "error": error.to_string()}))
			}
		}
	}
	emit(json!({"kind": "done"}));
	0
}

fn main()
{
	let args: Vec<String> = std::env::args().collect();
	let code = match args.get(1).map(|x| x.as_str())
	{
		Some("lexcheck") => cmd_lexcheck(&args[2..]),
		Some("fuzz") => cmd_fuzz(&args[2..]),
		Some("history") => cmd_history(&args[2..]),
		_ =>
		{
			eprintln!("usage: pworker lexcheck|fuzz|history ...");
			2
		}
	};
	std::process::exit(code);
}
