#!/usr/bin/env python3
"""Prints the markdown tables of DESIGN.md section 12 from seeded/*/meta.json and
sensitivity/RESULTS.md."""
import glob
import json
import os

HERE = os.path.dirname(os.path.dirname(os.path.abspath(__file__)))


def classes_of(checks):
    out = []
    for _c, v in (checks or {}).items():
        out += [x for x in v.get("classes", []) if x.islower() and "_" in x]
    return sorted(set(out))


def first_status(m):
    """How the change fared against the checks as they were when its author was
    started (round 1: the recorded first evaluation)."""
    b = m.get("baseline_evaluation")
    if b:
        return ("caught" if b.get("caught_by") else "missed"), b.get("verif_commit", "")
    i = m.get("initial_evaluation")
    if i:
        return ("caught" if i.get("caught_by") else "missed"), i.get("verif_commit") or "b399ebd"
    return ("caught" if m.get("caught_by") else "missed"), m.get("verif_commit", "")


def main():
    rows = []
    n_first = n_now = 0
    for mp in sorted(glob.glob(os.path.join(HERE, "seeded", "*", "meta.json"))):
        m = json.load(open(mp))
        first, at = first_status(m)
        now = "caught" if m.get("caught_by") else "MISSED"
        o = m.get("other_seed_evaluation")
        if now == "MISSED" and o and o.get("caught_by"):
            now = "caught with seed %s (default seed: missed)" % o["seed"]
        if now == "MISSED" and m.get("questionable"):
            now = "missed (see text)"
        n_first += first == "caught"
        n_now += now.startswith("caught")
        demo = "yes" if m.get("demo_confirms") else ("by hand" if m.get("demo_note") else "no")
        rows.append((m["id"], m.get("what", ""), m.get("needs", ""), demo, first, now, ", ".join(classes_of(m.get("checks"))[:4])))
    print("%d changes; caught by the checks as they were when the change was written: %d; caught now: %d.\n" % (len(rows), n_first, n_now))
    print("| id | change | needs to manifest | demo confirmed | first | now | violation classes (now) |")
    print("|---|---|---|---|---|---|---|")
    for r in rows:
        print("| " + " | ".join(str(x).replace("|", "\\|").replace("\n", " ") for x in r) + " |")


if __name__ == "__main__":
    main()
