#!/usr/bin/env python3
"""Prints the markdown table of independently written breaking changes (seeded/*/meta.json)."""
import json, os, glob
HERE = os.path.dirname(os.path.dirname(os.path.abspath(__file__)))
rows = []
for mp in sorted(glob.glob(os.path.join(HERE, "seeded", "*", "meta.json"))):
    m = json.load(open(mp))
    sid = m["id"]
    notes = ""
    np_ = os.path.join(os.path.dirname(mp), "notes.md")
    needs = m.get("needs", "")
    init = m.get("initial_evaluation") or {}
    first = "caught" if (init.get("caught_by") if init else m.get("caught_by")) else "missed"
    now = "caught" if m.get("caught_by") else "MISSED"
    classes = []
    for c, v in (m.get("checks") or {}).items():
        classes += [x for x in v.get("classes", []) if x.islower() and "_" in x]
    rows.append((sid, m["property"], m.get("what", ""), needs, "yes" if m.get("demo_confirms") else "no", m.get("pinned_suite_passed_failed", ""), first, now, ", ".join(sorted(set(classes))[:5])))
print("| id | property | change | needs to manifest | demo confirmed | pinned suite | first run | now | violation classes |")
print("|---|---|---|---|---|---|---|---|---|")
for r in rows:
    print("| " + " | ".join(str(x) for x in r) + " |")
