#!/usr/bin/env python3
"""Regenerates the tables of DESIGN.md section 12 between their markers."""
import os, subprocess, re
HERE = os.path.dirname(os.path.dirname(os.path.abspath(__file__)))
p = os.path.join(HERE, "DESIGN.md")
s = open(p).read()
seeded = subprocess.run(["python3", os.path.join(HERE, "tools", "seeded_table.py")], stdout=subprocess.PIPE, text=True).stdout
sens = open(os.path.join(HERE, "sensitivity", "RESULTS.md")).read()
def put(s, name, text):
    a = "<!-- %s-BEGIN -->" % name
    b = "<!-- %s-END -->" % name
    i, j = s.index(a), s.index(b)
    return s[:i + len(a)] + "\n" + text.strip("\n") + "\n" + s[j:]
s = put(s, "SEEDED-TABLE", seeded)
s = put(s, "SENSITIVITY-TABLE", sens)
open(p, "w").write(s)
print("tables updated")
