#!/usr/bin/env python3
"""eval_mutant.py <src_dir with patch.diff demo.sh notes.md> <seeded id> <property> [checks...]

Confirms an independently written breaking change (applies, builds, pinned suite
still 75 passed, its demo fails with the change and passes without), runs the
given quick checks against it in a scratch worktree, and files it under
/verif/seeded/<id>/ with meta.json. /repo is never touched.
"""
import json, os, re, shutil, subprocess, sys, time

VERIF = os.path.dirname(os.path.dirname(os.path.abspath(__file__)))

def sh(cmd, **kw):
    return subprocess.run(cmd, shell=True, stdout=subprocess.PIPE, stderr=subprocess.STDOUT, text=True, errors="replace", **kw)

def main():
    src, sid, prop = sys.argv[1:4]
    checks = sys.argv[4:] or [prop]
    tier = os.environ.get("EVAL_TIER", "quick")
    at = os.environ.get("EVAL_VERIF_AT")          # evaluate with /verif as it was at this commit
    run_dir = os.environ.get("EVAL_RUN_DIR", VERIF)      # a frozen copy of /verif to run the checks from (results are filed normally)
    if at:
        run_dir = "/var/tmp/verif-at-%s" % at
        if not os.path.isdir(run_dir):
            sh("git -C %s worktree add --detach %s %s" % (VERIF, run_dir, at))
    wt = "/var/tmp/penne-ev-%d" % os.getpid()
    bd = wt + ".build"
    meta = {"id": sid, "property": prop, "source": "independent sub-agent (given only the property text and a scratch worktree)",
            "checks_run_from": sh("git -C %s rev-parse --short HEAD" % run_dir).stdout.strip(),
            "evaluated_at_repo_commit": sh("git -C /repo rev-parse --short %s" % os.environ.get("EVAL_REPO_AT", "HEAD")).stdout.strip(),
            "verif_commit": sh("git -C %s rev-parse --short HEAD" % VERIF).stdout.strip()}
    try:
        sh("git -C /repo worktree add --detach %s %s" % (wt, os.environ.get("EVAL_REPO_AT", "HEAD")))   # EVAL_REPO_AT: /repo as it was when the change was written
        patch = os.path.join(src, "patch.diff")
        r = sh("git -C %s apply %s" % (wt, patch))
        rebased = os.path.join(VERIF, "seeded", sid, "patch.rebased.diff")
        if r.returncode != 0 and os.path.exists(rebased):
            # the same change re-expressed against the current /repo (later fix: commits touched its context)
            r = sh("git -C %s apply %s" % (wt, rebased))
            meta["applied_rebased_patch"] = r.returncode == 0
        if r.returncode != 0:
            # /repo has moved on (fix: commits) since the change was written: three-way merge,
            # accepted only when it leaves no conflict
            r = sh("git -C %s apply --3way %s" % (wt, patch))
            conflicts = sh("git -C %s diff --name-only --diff-filter=U" % wt).stdout.strip()
            markers = sh("grep -rl '^<<<<<<< ' %s/src || true" % wt).stdout.strip()
            if r.returncode == 0 and not conflicts and not markers:
                meta["applied_by_three_way_merge"] = True
                sh("git -C %s reset -q" % wt)
            else:
                r.returncode = 1
        meta["applies"] = r.returncode == 0
        if r.returncode != 0:
            meta["apply_error"] = r.stdout[-500:]
            return meta
        # pinned suite, guard off, default features
        r = sh("cd %s && CARGO_NET_OFFLINE=true CARGO_TARGET_DIR=%s/default cargo test --workspace --no-fail-fast --offline 2>&1 | grep -E '^test result' | awk '{p+=$4; f+=$6} END {print p, f}'" % (wt, bd))
        meta["pinned_suite_passed_failed"] = r.stdout.strip()
        # alpha build of the mutant
        os.makedirs(bd, exist_ok=True)
        sh("cp -a %s/.build/penne %s/penne" % (VERIF, bd))
        env = dict(os.environ, VERIF_REPO=wt, VERIF_BUILD=bd, VERIF_WORK="/dev/shm/penne-ev-%d" % os.getpid())
        r = sh("%s/tools/build.sh" % run_dir, env=env)
        meta["builds_alpha"] = r.returncode == 0
        if r.returncode != 0:
            meta["build_error"] = r.stdout[-800:]
            return meta
        demo = os.path.join(src, "demo.sh")
        prev = {}
        try:
            prev = json.load(open(os.path.join(VERIF, "seeded", sid, "meta.json")))
        except Exception:
            pass
        if os.environ.get("EVAL_SKIP_DEMO") and prev.get("demo_confirms"):
            # the demonstration was confirmed when the change was first filed
            for k in ("demo_with_change_exit", "demo_without_change_exit", "demo_confirms", "demo_tail_with_change"):
                if k in prev:
                    meta[k] = prev[k]
        elif os.path.exists(demo):
            r1 = sh("cd %s && timeout 600 bash %s %s/penne/debug/penne" % (src, demo, bd))
            r0 = sh("cd %s && timeout 600 bash %s %s/.build/penne/debug/penne" % (src, demo, VERIF))
            meta["demo_with_change_exit"] = r1.returncode
            meta["demo_without_change_exit"] = r0.returncode
            meta["demo_confirms"] = r1.returncode != 0 and r0.returncode == 0
            meta["demo_tail_with_change"] = r1.stdout[-400:]
        meta["checks"] = {}
        for c in checks:
            t0 = time.time()
            r = sh("cd %s && ./check %s --tier %s" % (run_dir, c, tier), env=env)
            classes = sorted(set(re.findall(r"^  ([a-zA-Z_0-9/]+)[ :(]", r.stdout, re.M)))
            viol = re.findall(r"^VIOLATION .*$", r.stdout, re.M)
            meta["checks"][c] = {"tier": tier, "exit": r.returncode, "violation_lines": len(viol), "classes": classes,
                                 "summary": r.stdout.strip().splitlines()[-1][:300] if r.stdout.strip() else "", "wall_s": round(time.time() - t0, 1)}
        meta["caught_by"] = sorted(c for c, v in meta["checks"].items() if v["exit"] == 1)
        if at:
            # only the baseline is recorded; everything else in meta.json stays
            mp0 = os.path.join(VERIF, "seeded", sid, "meta.json")
            if not os.path.exists(mp0):
                # first filing of this change: the baseline run is also the first evaluation
                meta["baseline_evaluation"] = {"verif_commit": at, "note": "the checks as committed when the sub-agent that wrote this change was started",
                                               "checks": meta["checks"], "caught_by": meta["caught_by"]}
                return meta
            old = json.load(open(mp0))
            old["baseline_evaluation"] = {"verif_commit": at, "note": "the checks as committed when the sub-agent that wrote this change was started",
                                          "checks": meta["checks"], "caught_by": meta["caught_by"]}
            meta.clear()
            meta.update(old)
        return meta
    finally:
        sh("git -C /repo worktree remove --force %s" % wt)
        shutil.rmtree(wt, ignore_errors=True)
        shutil.rmtree(bd, ignore_errors=True)
        shutil.rmtree("/dev/shm/penne-ev-%d" % os.getpid(), ignore_errors=True)
        sh("git -C /repo worktree prune")
        # replays written while judging a mutant are not findings on /repo
        out = os.path.join(VERIF, "seeded", sid)
        os.makedirs(out, exist_ok=True)
        same = os.path.realpath(src) == os.path.realpath(out)
        for f in ("patch.diff", "demo.sh", "notes.md"):
            p = os.path.join(src, f)
            if os.path.exists(p) and not same:
                shutil.copy(p, os.path.join(out, f))
        for extra in ([] if same else sorted(os.listdir(src))):
            if extra not in ("patch.diff", "demo.sh", "notes.md") and os.path.getsize(os.path.join(src, extra)) < 200000 and os.path.isfile(os.path.join(src, extra)):
                shutil.copy(os.path.join(src, extra), os.path.join(out, extra))
        try:
            desc = json.load(open(os.path.join(VERIF, "seeded", "descriptions.json"))).get(sid, {})
            meta.update({k: v for k, v in desc.items()})
        except Exception:
            pass
        meta["what_was_run"] = ("tools/eval_mutant.py: scratch worktree of /repo HEAD + patch.diff; pinned suite (cargo test --workspace, default features); "
                                "alpha build via tools/build.sh; demo.sh against the patched and the unpatched binary; ./check <property> --tier quick with VERIF_REPO pointing at the worktree")
        mp = os.path.join(out, "meta.json")
        if os.path.exists(mp):
            try:
                old = json.load(open(mp))
                first = old.get("initial_evaluation") or {"checks": old.get("checks"), "caught_by": old.get("caught_by"),
                                                          "verif_commit": old.get("verif_commit")}
                meta["initial_evaluation"] = first
            except Exception:
                pass
        with open(os.path.join(out, "meta.json"), "w") as f:
            json.dump(meta, f, indent=1, sort_keys=True)
        print(json.dumps({k: v for k, v in meta.items() if k not in ("demo_tail_with_change",)}, indent=1))

main()
