#!/usr/bin/env python3
"""For changes the default seed misses: the same quick check under two more seeds
(and, for C13m-3, under the C18 check it belongs to). Results go to meta.json as
other_seed_evaluation / extra checks. Usage: reeval_missed.py <frozen verif dir> <repo commit>"""
import glob, json, os, re, subprocess, sys
VERIF = os.path.dirname(os.path.dirname(os.path.abspath(__file__)))
run_dir, repo_at = sys.argv[1], sys.argv[2]
def sh(cmd, env=None):
    return subprocess.run(cmd, shell=True, stdout=subprocess.PIPE, stderr=subprocess.STDOUT, text=True, errors="replace", env=env)
for mp in sorted(glob.glob(os.path.join(VERIF, "seeded", "*", "meta.json"))):
    m = json.load(open(mp))
    if m.get("caught_by") or not m.get("applies"):
        continue
    sid, prop = m["id"], m["property"]
    d = os.path.dirname(mp)
    patch = os.path.join(d, "patch.rebased.diff" if m.get("applied_rebased_patch") else "patch.diff")
    wt = "/var/tmp/penne-re-%d" % os.getpid()
    bd = wt + ".build"
    sh("git -C /repo worktree add --detach %s %s" % (wt, repo_at))
    try:
        if sh("git -C %s apply %s" % (wt, patch)).returncode != 0:
            sh("git -C %s apply --3way %s && git -C %s reset -q" % (wt, patch, wt))
        os.makedirs(bd, exist_ok=True)
        sh("cp -a %s/.build/penne %s/penne" % (VERIF, bd))
        checks = [(prop, s) for s in (1, 2)]
        if sid == "C13m-3":
            checks = [("C18", None)]
        for chk, seed in checks:
            env = dict(os.environ, VERIF_REPO=wt, VERIF_BUILD=bd, VERIF_WORK="/dev/shm/penne-re-%d" % os.getpid())
            if seed is not None:
                env["VERIF_SEED"] = str(seed)
            r = sh("cd %s && ./check %s --tier quick" % (run_dir, chk), env=env)
            classes = sorted(set(re.findall(r"^  ([a-zA-Z_0-9/]+)[ :(]", r.stdout, re.M)))
            print(sid, chk, seed, "exit", r.returncode, classes[:4], flush=True)
            if r.returncode == 1:
                if seed is None:
                    m.setdefault("checks", {})[chk] = {"tier": "quick", "exit": 1, "classes": classes, "summary": r.stdout.strip().splitlines()[-1][:300]}
                    m["caught_by"] = sorted(set(m.get("caught_by") or []) | {chk})
                else:
                    m["other_seed_evaluation"] = {"seed": seed, "caught_by": [chk], "classes": classes}
                break
        json.dump(m, open(mp, "w"), indent=1, sort_keys=True)
    finally:
        sh("git -C /repo worktree remove --force %s" % wt)
        sh("rm -rf %s %s /dev/shm/penne-re-%d" % (wt, bd, os.getpid()))
        sh("git -C /repo worktree prune")
