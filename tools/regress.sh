#!/bin/sh
# Regression net for fix: commits in /repo (not a registered check):
#  1. the pinned suite, guard off, default features  -> must be 75 passed
#  2. the feature-gated suite (alpha)                -> pass/fail set must stay 294/6
REPO=${1:-/repo}
VERIF=$(cd "$(dirname "$0")/.." && pwd)
cd "$REPO"
echo "== pinned suite (default features)"
CARGO_NET_OFFLINE=true cargo test --workspace --no-fail-fast --offline 2>&1 | grep -E "^test result|FAILED|failed" | awk '/^test result/ {p+=$4; f+=$6} {print} END {print "TOTAL passed=" p " failed=" f}' | tail -15
echo "== alpha suite"
PATH="$VERIF/tools/llvmshim:$PATH" CARGO_NET_OFFLINE=true CARGO_TARGET_DIR="$VERIF/.build/penne" cargo test --offline --no-fail-fast --features alpha,llvm-sys 2>&1 | grep -E "^test result|^test .* FAILED" | awk '/^test result/ {p+=$4; f+=$6} {print} END {print "TOTAL passed=" p " failed=" f}' | tail -20
