#!/bin/bash
# Runs every deliberate break in /verif/sensitivity against the check of the
# property it targets (scratch worktree, /repo untouched) and writes
# sensitivity/RESULTS.md. A break that is NOT caught is a gap in the checks.
cd "$(dirname "$0")/.."
TIER=${1:-quick}
OUT=sensitivity/RESULTS.md
echo "| deliberate break | check | tier | caught | violation classes |" > $OUT.tmp
echo "|---|---|---|---|---|" >> $OUT.tmp
for f in sensitivity/*.diff; do
  name=$(basename $f .diff)
  case $name in
    c12-*|undo-fix-structure-types|undo-fix-used-intrinsics|undo-fix-const-fn-symbol|undo-fix-call-convention|undo-fix-void-main-status) checks="C12";;
    c13-*|undo-fix-crlf-spans|undo-fix-trailing-backslash-span|undo-fix-report-line-numbers|undo-fix-duplicate-external-function|undo-fix-silent-type-error|undo-fix-duplicate-label-location) checks="C13";;
    undo-fix-import-order) checks="C13 C12";;
    c18-*|undo-fix-out-dir-escape|undo-fix-artefact-collision|undo-fix-broken-pipe|undo-fix-wasm-triple) checks="C18";;
    c19-*) checks="C19";;
    *) checks="C12";;
  esac
  for c in $checks; do
    log=$(./tools/with_mutant.sh /verif/$f ./check $c --tier $TIER 2>&1)
    rc=$?
    classes=$(echo "$log" | grep -oE "^  [a-zA-Z_0-9/]+" | sort -u | tr -d ' ' | tr '\n' ' ')
    caught=no; [ $rc -eq 1 ] && caught=yes; [ $rc -ge 2 ] && caught="harness exit $rc"
    echo "| $name | $c | $TIER | $caught | $classes |" >> $OUT.tmp
    echo "$name $c -> $caught ($classes)"
  done
done
mv $OUT.tmp $OUT
