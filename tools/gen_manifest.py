#!/usr/bin/env python3
"""Writes /verif/MANIFEST.json (kept as a script so that the file stays consistent)."""
import json, os
HERE = os.path.dirname(os.path.dirname(os.path.abspath(__file__)))
NA = {
"C01":"pure function program -> IR -> output of one module; no schedule, clock, I/O fault or history for a simulator to own (DESIGN 7)",
"C02":"totality over source texts is an input-space property; its schedule/history-dependent facet (a crash under one splice order or module history) is reported by the C12/C13 checks (DESIGN 7)",
"C03":"quantifies over programs; its only history-dependent clause (generator tables surviving across modules) is oracle O3 of the C12 check (DESIGN 7)",
"C04":"label scoping is a pure tree walk over one AST; nothing to schedule or fault (DESIGN 7)",
"C05":"variable scoping is a pure pass; its hash sets are membership tests only, never iterated (DESIGN 7)",
"C06":"placement rules are a pure tree walk with three booleans (DESIGN 7)",
"C07":"typer/resolver are pure passes over one module's AST; symbol tables are keyed lookups, never iterated (DESIGN 7)",
"C08":"mutability analysis is a pure pass; the run-time half concerns one deterministic program execution (DESIGN 7)",
"C09":"literal handling is a pure function of one token through lexer/parser/typer/generator (DESIGN 7)",
"C10":"constant folding happens inside one LLVM context for one module; pure (DESIGN 7)",
"C11":"permuting declarations inside a file is an input transformation, not a schedule; the splice order of imported declarations is covered by C12/C13 (DESIGN 7)",
"C14":"two pure scanners compared on the same bytes; no nondeterminism or fault surface (DESIGN 7)",
"C15":"pure, single-threaded front end; its unsafe bounds depend on the input only, allocation failure aborts by design (DESIGN 7)",
"C16":"parse tree construction is a pure function of the token stream (DESIGN 7)",
"C17":"header extraction is pure index rewriting over one parse tree (DESIGN 7)",
"C20":"rebuild/parse round trip is a pure function of the tree (DESIGN 7)",
}
def chk(pid, engine, cat, text, note, tech, ref):
    return {"property_id":pid,"quick_cmd":"./check %s --tier quick"%pid,"thorough_cmd":"./check %s --tier thorough"%pid,
      "evidence_file":"/verif/evidence/%s.json"%pid,"replay_cmd_template":"./check %s --replay {path}"%pid,"engine":engine,
      "level_claimed":{"category":cat,"text":text,"design_ref":ref},"level_note":note,"technique":tech}
CHECKS = {
"C12": chk("C12","modsim","exploration",
 "Seeded search over generated programs x partitions into 2-8 modules (empty modules, diamonds, cycles, same-named files, ../ and case-only layouts) x file orders (all permutations up to 4 files in the thorough tier) x per-process entropy streams x behaviour-preserving perturbations, executed by the real penne CLI and real lli in fresh processes under a simulated OS; every sixth program is also built with the real clang (-O0/-O2, unsplit and two orders); plus module histories through one real Compiler (interleaved unrelated programs, rejected / linting / back-end-refused / abandoned modules, read-only API calls at odd moments, retargeting to wasm at the start or in the middle). Oracles: accepted, behaves like the unsplit program, order- and entropy-independent, per-module IR valid (llvm-as) with matching calling conventions, pub functions external, results equal to a fresh Compiler's, the linked program defines what every module defined, every reference outside the model's visible set (five reference positions) rejected with the right code in the right file; four hand-written hygiene templates carry the known findings. Sampling, not proof; programs come from one generator.",
 "Trusted: the generator's programs are valid (checked: the unsplit program must compile and run), lli/llvm-as as reference tools, the 10-line visibility model, simos.so's getrandom interposition.",
 "deterministic simulation: entropy seam + exhaustive file-order schedules + module-history fault injection, refinement against the unsplit program","DESIGN.md section 3"),
"C13": chk("C13","detsim","exploration",
 "Decides the determinism clause by owning every source of run-to-run variation: each input set (whole corpus, import samples in all orders, a zoo of expression x context programs, generated multi-module sets with injected mistakes, seeded mutations incl. multi-byte/CRLF/BOM/odd line breaks/truncation) is compiled repeatedly in fresh processes of the real CLI, each under its own entropy stream, simulated clock and pid, several environments, an 'ambient' run (other directory, file times, clutter, executable name, HOME/TMPDIR/locale), a 'delivery' run (named pipe, path spelling, absolute path), all colour x charset configurations, and (thorough) with ASLR on; exit status, stdout, stderr and every IR file must be byte-identical. Monitors on every diagnostic seen: every code is in docs/errors.md (eight known exceptions), a failing compilation has a coded diagnostic, every Location lies inside its file, the rendered header is the start of a location counted in line feeds, underlines stand under the labelled text (terminal columns), quoted lines are the source's, colour only colours, secondary locations point at the named declaration where the language fixes it. 'Covers the offending text' is checked where the diagnostic or the constructed input names the text, not per error kind.",
 "Trusted: the simulator owns all variation sources (getrandom, clock, pid, env, layout); a compiler panic is compared as panic@file:line because the Rust runtime prints the OS thread id.",
 "deterministic simulation: entropy/clock/pid/environment/ASLR seams varied around fixed inputs, byte-equality across runs","DESIGN.md section 4"),
"C18": chk("C18","clisim","fault_enumeration",
 "The real CLI runs against a simulated OS: for each scenario (subcommand x input kind x out-dir kind x options) a fault-free census run records every intercepted call; then every (call site, applicable fault) pair is injected alone - EINTR and short transfers (must be absorbed: run indistinguishable from fault-free) and hard errors on source/config reads, mkdir, artefact open/write, pipe, spawn, wait (must give non-zero exit, never exit 0 with a missing or truncated artefact) - plus scripted backends (exit codes, signals, partial reads, output bytes; the backend's status decides), both forced parent/child orders on the IR pipe, exhaustive backend resolution (flag x env x config), crash (SIGKILL at a call site, torn writes) and restart, the same command twice in one directory, two overlapping invocations under one fixed schedule (one held at a gate), file-system and delivery variants (named pipes, absolute inputs, colliding names, unwritable stdout under --silent, non-UTF-8 names), real lli and real clang (-O2) cross-checks, and a seeded swarm of multi-fault plans. A reference model of ~40 lines predicts the exit status from scenario + fired faults.",
 "Trusted: LD_PRELOAD interposition reaches every libc call penne makes (std goes through the PLT; census shows the expected calls); the stub backend stands in for clang/lli in fault runs and is cross-checked against real lli; close() errors are not injected (std ignores them).",
 "deterministic simulation with fault injection: syscall-level single-fault enumeration + seeded multi-fault swarm + scripted backend process, reference model of the exit status","DESIGN.md section 5"),
"C19": chk("C19","fuzzsim","exploration",
 "Seeded search over the fuzzer's random stream: the real `penne fuzz tokens` CLI (fresh process per run, sizes 1-64 KB and 100/300/1000 KB, a fifth of the file-writing runs with a write fault injected: the tool may fail, not claim success with less) and the real fill_to_capacity_with_tokens (fresh thread per run) are executed under a simulated OS that serves getrandom from a per-run seed; every output is lexed by both real lexers. Thousands (quick) to hundreds of thousands (thorough) of distinct outputs; a failure replays exactly from its entropy seed and is shrunk to a minimal snippet. Sampling, not proof.",
 "Trusted: simos.so's getrandom interposition is the only entropy the fuzzer reads; pworker calls the same lexer entry points as the CLI; the distribution explored is the fuzzer's own.",
 "deterministic simulation: entropy seam (LD_PRELOAD getrandom) + seeded search, both real lexers as oracle, ddmin shrinking","DESIGN.md section 6"),
}
ENGINES = [
 {"name":"modsim","path":"sim/modsim.py","serves_properties":["C12"],"kind_free_text":"multi-module composition: real CLI under simos + module histories through the real Compiler (pworker)"},
 {"name":"detsim","path":"sim/detsim.py","serves_properties":["C13"],"kind_free_text":"determinism: entropy/clock/pid/env/ASLR varied around fixed inputs"},
 {"name":"clisim","path":"sim/clisim.py","serves_properties":["C18"],"kind_free_text":"CLI against a simulated OS with syscall fault injection and a scripted backend"},
 {"name":"fuzzsim","path":"sim/fuzzsim.py","serves_properties":["C19"],"kind_free_text":"entropy-seam simulation of the token fuzzer"},
]
def main():
    have = [p for p in ("C12","C13","C18","C19") if os.path.exists(os.path.join(HERE,"sim",CHECKS[p]["engine"]+".py"))]
    na = [{"property_id":k,"reason":v} for k,v in NA.items()]
    for p in ("C12","C13","C18","C19"):
        if p not in have:
            na.append({"property_id":p,"reason":"engine not built yet in this commit (planned, see DESIGN.md)"})
    m={"version":1,"setup_cmd":"./tools/build.sh",
     "hooks":{"guard":"penne_verif","enable":"no source hooks are needed: every seam is external (LD_PRELOAD simos.so, --backend/PENNE_* stub backend, public library API); checks build /repo's working tree with `cargo build --features alpha,llvm-sys` via tools/build.sh","baseline_off_cmd":"cd /repo && cargo test --workspace --no-fail-fast --offline","source_commits":[],"add_only":True},
     "engines":[e for e in ENGINES if e["serves_properties"][0] in have],
     "checks":[CHECKS[p] for p in have],
     "notes":"./check selftest proves determinism of the simulator (same seed twice, different worker counts, different PYTHONHASHSEED). Repairs of genuine defects are the 16 `fix:` commits in /repo, listed as `fixed:` in known_findings.txt together with the 14 `known:` findings; tools/regress.sh is the regression net for them; sensitivity/ holds deliberate breaks incl. the reverse patch of every repair; seeded/ the independently written breaking changes.",
     "not_applicable":sorted(na,key=lambda x:x["property_id"])}
    json.dump(m,open(os.path.join(HERE,"MANIFEST.json"),"w"),indent=1)
    print("MANIFEST: checks", have)
main()
