#!/bin/sh
# with_mutant.sh <patch.diff|-> <command...>
# Runs <command> against a scratch git worktree of /repo with the patch applied
# (VERIF_REPO / VERIF_BUILD point the checks at it). The worktree and its build
# output live under /var/tmp and are removed afterwards. /repo is not touched.
set -e
PATCH=$1; shift
VERIF=$(cd "$(dirname "$0")/.." && pwd)
ID=$$
WT=/var/tmp/penne-mut-$ID
BD=/var/tmp/penne-mut-$ID.build
cleanup() {
  git -C /repo worktree remove --force "$WT" >/dev/null 2>&1 || true
  rm -rf "$WT" "$BD"
  git -C /repo worktree prune >/dev/null 2>&1 || true
}
trap cleanup EXIT INT TERM
git -C /repo worktree add --detach "$WT" HEAD >/dev/null 2>&1
# include uncommitted state of /repo? no: mutants are relative to HEAD
if [ "$PATCH" != "-" ]; then
  git -C "$WT" apply "$PATCH"
fi
mkdir -p "$BD"
# warm start: registry dependencies are path-independent
if [ -d "$VERIF/.build/penne" ]; then cp -a "$VERIF/.build/penne" "$BD/penne"; fi
VERIF_REPO="$WT" VERIF_BUILD="$BD" VERIF_WORK="/dev/shm/penne-mut-$ID" "$@"
RC=$?
rm -rf "/dev/shm/penne-mut-$ID"
exit $RC
