#!/bin/sh
# Build everything the checks need, offline, from /repo's CURRENT working tree:
#   .build/sim/simos.so, .build/sim/stub_backend   (C, clang)
#   .build/penne/debug/penne                       (cargo, --features alpha,llvm-sys)
#   .build/penne/debug/pworker                     (cargo, depends on /repo by path)
# cargo's own fingerprinting makes this a no-op when nothing changed.
set -e
VERIF=$(cd "$(dirname "$0")/.." && pwd)
REPO=${VERIF_REPO:-/repo}
B=${VERIF_BUILD:-"$VERIF/.build"}
mkdir -p "$B/sim"
export CARGO_NET_OFFLINE=true
export PATH="$VERIF/tools/llvmshim:$PATH"
export CARGO_TARGET_DIR="$B/penne"
unset RUSTFLAGS RUST_BACKTRACE

(
  # one builder at a time (checks may be started concurrently)
  flock 9
  if [ ! -e "$B/sim/simos.so" ] || [ "$VERIF/sim/simos.c" -nt "$B/sim/simos.so" ]; then
    clang -O1 -g -w -fPIC -shared -o "$B/sim/simos.so.tmp" "$VERIF/sim/simos.c" -ldl
    mv "$B/sim/simos.so.tmp" "$B/sim/simos.so"
  fi
  if [ ! -e "$B/sim/stub_backend" ] || [ "$VERIF/sim/stub_backend.c" -nt "$B/sim/stub_backend" ]; then
    clang -O1 -g -w -o "$B/sim/stub_backend.tmp" "$VERIF/sim/stub_backend.c"
    mv "$B/sim/stub_backend.tmp" "$B/sim/stub_backend"
  fi
  cd "$REPO"
  cargo build --offline --quiet --features alpha,llvm-sys --bin penne 2>"$B/build-penne.log" || { tail -40 "$B/build-penne.log"; exit 1; }
  PW="$VERIF/pworker"
  if [ "$REPO" != "/repo" ]; then
    # scratch copy of the repository (sensitivity runs): same crate, other path
    PW="$B/pworker-src"
    rm -rf "$PW"; mkdir -p "$PW"
    cp -r "$VERIF/pworker/src" "$VERIF/pworker/Cargo.lock" "$PW/"
    sed "s#path = \"/repo\"#path = \"$REPO\"#" "$VERIF/pworker/Cargo.toml" > "$PW/Cargo.toml"
  fi
  cd "$PW"
  cargo build --offline --quiet 2>"$B/build-pworker.log" || { tail -40 "$B/build-pworker.log"; exit 1; }
) 9>"$B/.lock"
echo "build ok"
