"""Structure-aware shrinking of C12 counterexamples.

A failing configuration is shrunk on the *generator's* representation (items,
module assignment, perturbations), never on raw text: after every step the
pub/import closure is recomputed, so each candidate is again a well-formed
split of a program that the real compiler accepts unsplit. That rules out the
classic ddmin slippage (deleting an import and "reproducing" a rejection that
is now legitimate).
"""
import copy
import os
import shutil

import pngen
from common import fresh_dir, write_files, HarnessError, min_expired
from fuzzsim import ddmin


def rebuild(st):
    sp = pngen.split_from_json(st)
    files = pngen.ordered_file_map(sp, st.get("item_order", {}))
    files.update(st.get("extra_files", {}))
    pub_fns = {}
    for it in sp.program.items:
        if it.kind == "fn" and (it.name in sp.pub or it.name == "main") and not it.body.rstrip().endswith(";"):
            m = sp.assign[it.name]
            new = sp.renames.get(m, {}).get(it.name, it.name)
            pub_fns.setdefault(sp.files[m], set()).add(new)
    return sp, files, pub_fns


def shrink_case(modsim, case, cls, wd):
    """-> (Case, minimised?)"""
    Case = modsim.Case
    if not getattr(case, "structure", None):
        return case, False
    st = copy.deepcopy(case.structure)
    orders = [list(o) for o in case.orders]
    entropies = list(case.entropies)
    need_art = cls in ("invalid_ir", "nondeterministic_ir", "artifact_missing", "pub_not_external")

    def build(st, orders, entropies):
        sp, files, pub_fns = rebuild(st)
        names = set(files) | set(st.get("packages", []))
        ords = []
        for o in orders:
            o2 = [n for n in o if n in names]
            if o2 not in ords:
                ords.append(o2)
        single = sp.program.single_file()
        rwd = os.path.join(wd, "ref")
        fresh_dir(rwd)
        write_files(rwd, {"main.pn": single})
        p = modsim.parse_run(modsim.penne_run(rwd, ["main.pn"], entropies[0]))
        if p["verdict"] != "ok":
            return None
        c = Case(files, ords, entropies, modsim.behaviour(p), pub_fns, case.tag)
        c.structure = st
        c.cwd = case.cwd
        return c

    def holds(st, orders, entropies):
        c = build(st, orders, entropies)
        if c is None:
            return False
        return any(k == cls for k, _ in modsim.evaluate_case(c, os.path.join(wd, "m"), check_artifacts=need_art))

    if not holds(st, orders, entropies):
        return case, False
    # 1. fewer orders / entropy seeds
    keep_o = 2 if cls == "order_dependent_behaviour" else 1
    if len(orders) > keep_o:
        orders = ddmin(orders, lambda sub: len(sub) >= keep_o and holds(st, sub, entropies), max_tests=40)
    keep_e = 2 if cls.startswith("nondeterministic") else 1
    if len(entropies) > keep_e:
        entropies = ddmin(entropies, lambda sub: len(sub) >= keep_e and holds(st, orders, sub), max_tests=20)
    # 2. perturbations, extra files, packages
    for key in ("extra_files", "packages"):
        if st.get(key) and not min_expired():
            st2 = copy.deepcopy(st)
            st2[key] = {} if key == "extra_files" else []
            if holds(st2, orders, entropies):
                st = st2
    for key in ("renames", "extra_imports"):
        for m in sorted(st.get(key, {})):
            if min_expired():
                break
            st2 = copy.deepcopy(st)
            del st2[key][m]
            if holds(st2, orders, entropies):
                st = st2
    if st.get("dup_imports"):
        st2 = copy.deepcopy(st)
        st2["dup_imports"] = []
        if holds(st2, orders, entropies):
            st = st2
    # 3. items
    names = [d["name"] for d in st["items"] if d["name"] != "main"]

    def with_items(kept):
        st2 = copy.deepcopy(st)
        st2["items"] = pngen.drop_items(st["items"], [n for n in names if n not in kept])
        return st2

    kept = ddmin(names, lambda sub: holds(with_items(sub), orders, entropies), max_tests=150)
    st = with_items(kept)
    # 4. lines of main
    main = [d for d in st["items"] if d["name"] == "main"]
    if main:
        lines = main[0]["body"].split("\n")
        fixed_head, body, fixed_tail = lines[:3], lines[3:-3], lines[-3:]

        def with_main(sub):
            st2 = copy.deepcopy(st)
            for d in st2["items"]:
                if d["name"] == "main":
                    d["body"] = "\n".join(fixed_head + sub + fixed_tail)
            return st2
        if len(body) > 1:
            body = ddmin(body, lambda sub: holds(with_main(sub), orders, entropies), max_tests=80)
            st = with_main(body)
            # items that main no longer needs
            names = [d["name"] for d in st["items"] if d["name"] != "main"]
            kept = ddmin(names, lambda sub: holds(with_items(sub), orders, entropies), max_tests=80)
            st = with_items(kept)
    out = build(st, orders, entropies)
    if out is None:
        return case, False
    return out, True


def shrink_negative(modsim, neg, cls, wd):
    if not neg.get("structure"):
        return neg, False
    st = copy.deepcopy(neg["structure"])
    target = neg["item"]
    mfile = neg["module_file"]

    def build(st):
        sp, files, _ = rebuild(st)
        if mfile not in files:
            return None
        if neg["kind"] != "import":
            if target not in sp.program.by_name:
                return None
            # the reference model must still say "not visible"
            m = sp.files.index(mfile)
            if target in sp.visible(m):
                return None
        n2 = dict(neg)
        n2["files"] = dict(files)
        if neg["kind"] == "import":
            n2["files"][mfile] = neg["import_line"] + files[mfile]
        else:
            n2["files"][mfile] = files[mfile] + "\n" + neg["probe"]
        names = set(files) | set(st.get("packages", []))
        n2["orders"] = [[n for n in o if n in names] for o in neg["orders"]]
        n2["structure"] = st
        return n2

    def holds(st):
        n2 = build(st)
        if n2 is None:
            return False
        return any(k == cls for k, _ in modsim.evaluate_negative(n2, os.path.join(wd, "m")))

    if not holds(st):
        return neg, False
    for key in ("extra_files", "packages"):
        if st.get(key):
            st2 = copy.deepcopy(st)
            st2[key] = {} if key == "extra_files" else []
            if holds(st2):
                st = st2
    for key in ("renames", "extra_imports"):
        for m in sorted(st.get(key, {})):
            st2 = copy.deepcopy(st)
            del st2[key][m]
            if holds(st2):
                st = st2
    names = [d["name"] for d in st["items"] if d["name"] not in ("main", target)]

    def with_items(kept):
        st2 = copy.deepcopy(st)
        st2["items"] = pngen.drop_items(st["items"], [n for n in names if n not in kept])
        return st2

    kept = ddmin(names, lambda sub: holds(with_items(sub)), max_tests=120)
    st = with_items(kept)
    out = build(st)
    return (out, True) if out else (neg, False)
