"""selftest -- proves the simulator deterministic before its verdicts are trusted.

For every engine a sample of run indices is executed several times: twice
with 16 workers, once with 3 workers, once in a fresh interpreter under a
different PYTHONHASHSEED, and the per-run event logs (everything observable
about a run: plans, verdicts, hashes of outputs and syscall traces; no pids,
no absolute paths, no wall-clock values) are diffed. Any difference is a
harness error (exit 2).
"""
import os
import subprocess
import sys
import time

import common

ENGINES = ["fuzzsim", "modsim", "detsim", "clisim"]
SAMPLES = {"quick": 40, "thorough": 1500}


def emit_log(engine, n, seed):
    common.disable_aslr()
    mod = __import__(engine)
    for line in mod.determinism_log(seed, list(range(n))):
        print(line)


def run(tier, seed):
    t0 = time.time()
    n = SAMPLES[tier]
    here = os.path.dirname(os.path.abspath(__file__))
    bad = 0
    total = 0
    for engine in ENGINES:
        logs = []
        for jobs, hashseed in ((16, "0"), (16, "12345"), (3, "777")):
            env = dict(os.environ)
            env["VERIF_JOBS"] = str(jobs)
            env["PYTHONHASHSEED"] = hashseed
            env["VERIF_SEED"] = str(seed)
            env["VERIF_WORK"] = os.path.join(common.work_root(), "selftest-%d-%s" % (jobs, hashseed))
            m = n if jobs > 3 else max(8, n // 4)
            p = subprocess.run([sys.executable, os.path.join(here, "selftest.py"), "--emit-log", engine, str(m)],
                               env=env, stdout=subprocess.PIPE, stderr=subprocess.PIPE)
            if p.returncode != 0:
                print("HARNESS-ERROR: selftest %s failed to run: %s" % (engine, p.stderr.decode(errors="replace")[-800:]))
                return 2
            logs.append(p.stdout.decode(errors="replace").splitlines())
        a, b, c = logs
        total += len(a)
        if a != b:
            bad += 1
            diff = [(x, y) for x, y in zip(a, b) if x != y][:2]
            print("NONDETERMINISM in %s between two identical 16-worker runs:" % engine)
            for x, y in diff:
                print("  A: %s\n  B: %s" % (x[:400], y[:400]))
        ca = [l for l in a if l in set(c)]
        missing = [l for l in c if l not in set(a)]
        if missing:
            bad += 1
            print("NONDETERMINISM in %s between 16 workers and 3 workers / other PYTHONHASHSEED:" % engine)
            for l in missing[:2]:
                print("  only in the 3-worker run: %s" % l[:400])
        print("selftest %s: %d log lines x2 (16 workers), %d lines (3 workers, other hash seed): %s" %
              (engine, len(a), len(c), "identical" if a == b and not missing else "DIFFERENT"))
    print("selftest: %d event-log lines compared, %d engine(s) with differences, %.1fs" % (total, bad, time.time() - t0))
    return 2 if bad else 0


if __name__ == "__main__":
    if len(sys.argv) >= 4 and sys.argv[1] == "--emit-log":
        emit_log(sys.argv[2], int(sys.argv[3]), common.verif_seed())
