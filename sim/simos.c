/*
 * simos.so -- the simulated OS for deterministic simulation of the penne CLI.
 *
 * Loaded with LD_PRELOAD into the REAL penne binary (and into pworker).  It
 * owns every source of nondeterminism and every fault the driver wants to
 * inject, all of them decided by environment variables that the driver
 * derives from one run seed:
 *
 *   VERIF_SIM_ENTROPY=<u64>   seed of the getrandom()/getentropy() stream
 *   VERIF_SIM_CLOCK=<ns>:<step_ns>  simulated clock: start and per-call step
 *   VERIF_SIM_PID=<n>         value served by getpid()
 *   VERIF_SIM_TRACE=<path>    every intercepted call is logged here
 *   VERIF_SIM_PLAN=<plan>     fault plan:  class:index:action[:arg][;...]
 *   VERIF_SIM_ORDER=child_first   hold the first write into the backend
 *                             pipe until the backend child has exited
 *
 * classes   open   open()/openat() of a non-system path (sources, config, artefacts)
 *           read   read() on an fd from such an open
 *           fwrite write() on an fd from such an open
 *           pwrite write() on the write end of a pipe made by pipe2()
 *           out    write() on fd 1        err   write() on fd 2
 *           mkdir  mkdir()                pipe  pipe()/pipe2()
 *           spawn  posix_spawn[p]()       wait  waitpid()/wait4()
 * actions   errno:<E>   fail with errno E (spawn: return E)
 *           short:<N>   transfer only N bytes (read/write; N < count)
 *           eintr:<R>   fail with EINTR R times in a row, then proceed
 *           crash:<N>   the process dies (SIGKILL) at this call; for a write,
 *                       after N bytes of it reached the file (a torn write)
 *
 * The constructor removes LD_PRELOAD and all VERIF_SIM_* variables from the
 * environment, so child processes (lli, clang, the stub backend) run
 * unmodified and penne itself cannot observe the simulator through env.
 *
 * Without VERIF_SIM_TRACE / _PLAN / _ENTROPY the library is inert.
 */
#define _GNU_SOURCE
#include <dlfcn.h>
#include <errno.h>
#include <fcntl.h>
#include <signal.h>
#include <spawn.h>
#include <stdarg.h>
#include <stdint.h>
#include <stdio.h>
#include <stdlib.h>
#include <string.h>
#include <sys/stat.h>
#include <sys/syscall.h>
#include <sys/time.h>
#include <sys/types.h>
#include <sys/wait.h>
#include <time.h>
#include <unistd.h>

enum { C_OPEN, C_READ, C_FWRITE, C_PWRITE, C_OUT, C_ERR, C_MKDIR, C_PIPE,
       C_SPAWN, C_WAIT, C_NCLASS };
static const char *class_names[C_NCLASS] = {
	"open", "read", "fwrite", "pwrite", "out", "err", "mkdir", "pipe",
	"spawn", "wait" };

enum { A_ERRNO, A_SHORT, A_EINTR, A_CRASH, A_HOLD };
static const char *action_names[] = { "errno", "short", "eintr", "crash", "hold" };
static char hold_path[4096];     /* VERIF_SIM_HOLD: FIFO at which a `hold` entry parks the process */

#define MAX_PLAN 32
struct plan_entry {
	int cls;
	long idx;
	int action;
	long arg;
	long remaining; /* for eintr */
	int fired;
};
static struct plan_entry plan[MAX_PLAN];
static int plan_len;

static long counters[C_NCLASS];

#define MAX_FD 4096
enum { K_NONE = 0, K_FILE_R, K_FILE_W, K_PIPE_R, K_PIPE_W };
static unsigned char fdkind[MAX_FD];

static int armed;
static int have_entropy;
static uint64_t ent_state;
static int have_clock;
static uint64_t clock_now_ns, clock_step_ns;
static long sim_pid;
static int trace_fd = -1;
static int order_child_first;
static int order_done;
static pid_t last_child = -1;
static int trace_out_err = 1;

/* ---- real functions ------------------------------------------------- */
#define REAL(name) ((__typeof__(&name))real_sym(#name))
static void *real_sym(const char *name)
{
	void *p = dlsym(RTLD_NEXT, name);
	if (!p) {
		static const char msg[] = "simos: missing real symbol\n";
		syscall(SYS_write, 2, msg, sizeof msg - 1);
		_exit(97);
	}
	return p;
}

static void trace(const char *fmt, ...)
{
	if (trace_fd < 0)
		return;
	char buf[1024];
	va_list ap;
	va_start(ap, fmt);
	int n = vsnprintf(buf, sizeof buf - 1, fmt, ap);
	va_end(ap);
	if (n < 0)
		return;
	if (n > (int)sizeof buf - 2)
		n = sizeof buf - 2;
	buf[n++] = '\n';
	int saved = errno;
	syscall(SYS_write, trace_fd, buf, n);
	errno = saved;
}

static uint64_t splitmix64(uint64_t *s)
{
	uint64_t z = (*s += 0x9E3779B97F4A7C15ull);
	z = (z ^ (z >> 30)) * 0xBF58476D1CE4E5B9ull;
	z = (z ^ (z >> 27)) * 0x94D049BB133111EBull;
	return z ^ (z >> 31);
}

static void fill_entropy(void *buf, size_t len)
{
	unsigned char *p = buf;
	while (len) {
		uint64_t v = splitmix64(&ent_state);
		size_t n = len < 8 ? len : 8;
		memcpy(p, &v, n);
		p += n;
		len -= n;
	}
}

/* exported: lets an in-process driver (pworker) start a new entropy stream */
void simos_reseed(uint64_t seed)
{
	have_entropy = 1;
	ent_state = seed;
}
int simos_present(void) { return armed ? 2 : 1; }

static int class_by_name(const char *s, size_t n)
{
	for (int i = 0; i < C_NCLASS; i++)
		if (strlen(class_names[i]) == n && !memcmp(class_names[i], s, n))
			return i;
	return -1;
}

static void parse_plan(const char *s)
{
	while (*s && plan_len < MAX_PLAN) {
		const char *end = strchr(s, ';');
		if (!end)
			end = s + strlen(s);
		char item[128];
		size_t n = (size_t)(end - s);
		if (n >= sizeof item)
			n = sizeof item - 1;
		memcpy(item, s, n);
		item[n] = 0;
		char *f[4] = { 0, 0, 0, 0 };
		int nf = 0;
		for (char *tok = item; tok && nf < 4;) {
			f[nf++] = tok;
			tok = strchr(tok, ':');
			if (tok)
				*tok++ = 0;
		}
		if (nf >= 3) {
			struct plan_entry *e = &plan[plan_len];
			e->cls = class_by_name(f[0], strlen(f[0]));
			e->idx = atol(f[1]);
			e->action = -1;
			for (int a = 0; a < 5; a++)
				if (!strcmp(f[2], action_names[a]))
					e->action = a;
			e->arg = nf > 3 ? atol(f[3]) : 0;
			e->remaining = e->action == A_EINTR ? (e->arg > 0 ? e->arg : 1) : 0;
			if (e->cls >= 0 && e->action >= 0)
				plan_len++;
			else
				trace("E bad-plan-entry %s", f[0]);
		}
		s = *end ? end + 1 : end;
	}
}

__attribute__((constructor)) static void simos_init(void)
{
	const char *v;
	if ((v = getenv("VERIF_SIM_TRACE")) && *v) {
		int fd = (int)syscall(SYS_openat, AT_FDCWD, v,
				      O_WRONLY | O_CREAT | O_APPEND | O_CLOEXEC, 0644);
		if (fd >= 0) {
			trace_fd = (int)syscall(SYS_fcntl, fd, F_DUPFD_CLOEXEC, 1000);
			if (trace_fd < 0)
				trace_fd = fd;
			else
				syscall(SYS_close, fd);
		}
		armed = 1;
	}
	if ((v = getenv("VERIF_SIM_ENTROPY")) && *v) {
		have_entropy = 1;
		ent_state = strtoull(v, 0, 10);
		armed = 1;
	}
	if ((v = getenv("VERIF_SIM_CLOCK")) && *v) {
		have_clock = 1;
		char *e;
		clock_now_ns = strtoull(v, &e, 10);
		clock_step_ns = (*e == ':') ? strtoull(e + 1, 0, 10) : 1000;
		armed = 1;
	}
	if ((v = getenv("VERIF_SIM_PID")) && *v)
		sim_pid = atol(v);
	if ((v = getenv("VERIF_SIM_ORDER")) && !strcmp(v, "child_first"))
		order_child_first = 1;
	if ((v = getenv("VERIF_SIM_TRACE_STDIO")) && !strcmp(v, "0"))
		trace_out_err = 0;
	if ((v = getenv("VERIF_SIM_HOLD")) && *v && strlen(v) < sizeof hold_path)
		strcpy(hold_path, v);
	if ((v = getenv("VERIF_SIM_PLAN")) && *v) {
		parse_plan(v);
		armed = 1;
	}
	if (armed) {
		unsetenv("LD_PRELOAD");
		unsetenv("VERIF_SIM_TRACE");
		unsetenv("VERIF_SIM_ENTROPY");
		unsetenv("VERIF_SIM_CLOCK");
		unsetenv("VERIF_SIM_PID");
		unsetenv("VERIF_SIM_ORDER");
		unsetenv("VERIF_SIM_PLAN");
		unsetenv("VERIF_SIM_HOLD");
		unsetenv("VERIF_SIM_TRACE_STDIO");
		trace("S armed plan=%d entropy=%d clock=%d", plan_len, have_entropy, have_clock);
	}
}

/* Look up a plan entry for the call that is about to become number
 * counters[cls] of its class. Returns the entry or NULL. An eintr entry keeps
 * matching (without the counter advancing) until it is used up. */
static struct plan_entry *plan_lookup(int cls)
{
	long idx = counters[cls];
	for (int i = 0; i < plan_len; i++) {
		struct plan_entry *e = &plan[i];
		if (e->cls != cls || e->idx != idx)
			continue;
		if (e->action == A_EINTR) {
			if (e->remaining > 0)
				return e;
			continue;
		}
		if (!e->fired)
			return e;
	}
	return 0;
}

static void fire(struct plan_entry *e)
{
	e->fired++;
	trace("F %s %ld %s %ld", class_names[e->cls], e->idx,
	      action_names[e->action], e->arg);
}

static void crash_now(struct plan_entry *e)
{
	fire(e);
	trace("X crash");
	syscall(SYS_kill, syscall(SYS_getpid), SIGKILL);
	for (;;)
		syscall(SYS_pause);
}

static int is_system_path(const char *p)
{
	static const char *pfx[] = { "/proc/", "/sys/", "/etc/", "/usr/", "/lib/",
				     "/lib64/", "/dev/", "/opt/", "/root/.cargo/",
				     "/root/.rustup/", 0 };
	for (int i = 0; pfx[i]; i++)
		if (!strncmp(p, pfx[i], strlen(pfx[i])))
			return 1;
	return 0;
}

/* ---- entropy, clock, pid -------------------------------------------- */
ssize_t getrandom(void *buf, size_t len, unsigned flags)
{
	if (!have_entropy)
		return REAL(getrandom)(buf, len, flags);
	fill_entropy(buf, len);
	trace("R getrandom %zu", len);
	return (ssize_t)len;
}

int getentropy(void *buf, size_t len)
{
	if (!have_entropy)
		return REAL(getentropy)(buf, len);
	fill_entropy(buf, len);
	trace("R getentropy %zu", len);
	return 0;
}

static void sim_clock(struct timespec *ts)
{
	clock_now_ns += clock_step_ns;
	ts->tv_sec = (time_t)(clock_now_ns / 1000000000ull);
	ts->tv_nsec = (long)(clock_now_ns % 1000000000ull);
}

int clock_gettime(clockid_t id, struct timespec *ts)
{
	if (!have_clock)
		return REAL(clock_gettime)(id, ts);
	sim_clock(ts);
	trace("K clock_gettime %d", (int)id);
	return 0;
}

int gettimeofday(struct timeval *tv, void *tz)
{
	if (!have_clock)
		return REAL(gettimeofday)(tv, tz);
	struct timespec ts;
	sim_clock(&ts);
	if (tv) {
		tv->tv_sec = ts.tv_sec;
		tv->tv_usec = ts.tv_nsec / 1000;
	}
	trace("K gettimeofday");
	return 0;
}

time_t time(time_t *t)
{
	if (!have_clock)
		return REAL(time)(t);
	struct timespec ts;
	sim_clock(&ts);
	if (t)
		*t = ts.tv_sec;
	trace("K time");
	return ts.tv_sec;
}

pid_t getpid(void)
{
	if (!armed || !sim_pid)
		return (pid_t)syscall(SYS_getpid);
	trace("K getpid");
	return (pid_t)sim_pid;
}

/* ---- files ------------------------------------------------------------ */
static int do_open(int dirfd, const char *path, int flags, mode_t mode, const char *fn)
{
	int counted = armed && path && !is_system_path(path);
	if (counted) {
		struct plan_entry *e = plan_lookup(C_OPEN);
		if (e && e->action == A_CRASH)
			crash_now(e);
		if (e) {
			fire(e);
			if (e->action == A_EINTR) {
				e->remaining--;
				trace("T open %ld %s %s = -EINTR", counters[C_OPEN], path,
				      (flags & O_ACCMODE) == O_RDONLY ? "r" : "w");
				errno = EINTR;
				return -1;
			}
			if (e->action == A_ERRNO) {
				trace("T open %ld %s %s = -%ld", counters[C_OPEN], path,
				      (flags & O_ACCMODE) == O_RDONLY ? "r" : "w", e->arg);
				counters[C_OPEN]++;
				errno = (int)e->arg;
				return -1;
			}
		}
	}
	int fd = (int)syscall(SYS_openat, dirfd, path, flags, mode);
	if (counted) {
		int saved = errno;
		trace("T open %ld %s %s = %s", counters[C_OPEN], path,
		      (flags & O_ACCMODE) == O_RDONLY ? "r" : "w", fd >= 0 ? "ok" : strerror(saved));
		counters[C_OPEN]++;
		if (fd >= 0 && fd < MAX_FD)
			fdkind[fd] = (flags & O_ACCMODE) == O_RDONLY ? K_FILE_R : K_FILE_W;
		errno = saved;
	}
	(void)fn;
	return fd;
}

int open(const char *path, int flags, ...)
{
	mode_t mode = 0;
	if (flags & (O_CREAT | O_TMPFILE)) {
		va_list ap;
		va_start(ap, flags);
		mode = va_arg(ap, mode_t);
		va_end(ap);
	}
	return do_open(AT_FDCWD, path, flags, mode, "open");
}
int open64(const char *path, int flags, ...)
{
	mode_t mode = 0;
	if (flags & (O_CREAT | O_TMPFILE)) {
		va_list ap;
		va_start(ap, flags);
		mode = va_arg(ap, mode_t);
		va_end(ap);
	}
	return do_open(AT_FDCWD, path, flags | O_LARGEFILE, mode, "open64");
}
int openat(int dirfd, const char *path, int flags, ...)
{
	mode_t mode = 0;
	if (flags & (O_CREAT | O_TMPFILE)) {
		va_list ap;
		va_start(ap, flags);
		mode = va_arg(ap, mode_t);
		va_end(ap);
	}
	return do_open(dirfd, path, flags, mode, "openat");
}
int openat64(int dirfd, const char *path, int flags, ...)
{
	mode_t mode = 0;
	if (flags & (O_CREAT | O_TMPFILE)) {
		va_list ap;
		va_start(ap, flags);
		mode = va_arg(ap, mode_t);
		va_end(ap);
	}
	return do_open(dirfd, path, flags | O_LARGEFILE, mode, "openat64");
}

int close(int fd)
{
	if (armed && fd >= 0 && fd < MAX_FD && fdkind[fd] != K_NONE) {
		static const char *kn[] = { "", "file_r", "file_w", "pipe_r", "pipe_w" };
		trace("T close %s", kn[fdkind[fd]]);
		fdkind[fd] = K_NONE;
	}
	return (int)syscall(SYS_close, fd);
}

ssize_t read(int fd, void *buf, size_t count)
{
	if (!armed || fd < 0 || fd >= MAX_FD || fdkind[fd] != K_FILE_R)
		return syscall(SYS_read, fd, buf, count);
	struct plan_entry *e = plan_lookup(C_READ);
	size_t want = count;
	if (e) {
		if (e->action == A_EINTR) {
			fire(e);
			e->remaining--;
			trace("T read %ld %zu = -EINTR", counters[C_READ], count);
			errno = EINTR;
			return -1;
		}
		if (e->action == A_ERRNO) {
			fire(e);
			trace("T read %ld %zu = -%ld", counters[C_READ], count, e->arg);
			counters[C_READ]++;
			errno = (int)e->arg;
			return -1;
		}
		if (e->action == A_SHORT && e->arg > 0 && (size_t)e->arg < count) {
			fire(e);
			want = (size_t)e->arg;
		}
	}
	ssize_t r = syscall(SYS_read, fd, buf, want);
	int saved = errno;
	trace("T read %ld %zu = %zd", counters[C_READ], count, r);
	counters[C_READ]++;
	errno = saved;
	return r;
}

static void hold_until_child_exits(void)
{
	if (!order_child_first || order_done || last_child <= 0)
		return;
	order_done = 1;
	siginfo_t si;
	int r;
	do {
		r = (int)syscall(SYS_waitid, P_PID, last_child, &si, WEXITED | WNOWAIT, 0);
	} while (r < 0 && errno == EINTR);
	trace("O child_first held=%d", r);
}

ssize_t write(int fd, const void *buf, size_t count)
{
	int cls = -1;
	if (armed && fd >= 0 && fd < MAX_FD) {
		if (fd == 1)
			cls = C_OUT;
		else if (fd == 2)
			cls = C_ERR;
		else if (fdkind[fd] == K_FILE_W)
			cls = C_FWRITE;
		else if (fdkind[fd] == K_PIPE_W)
			cls = C_PWRITE;
	}
	if (cls < 0)
		return syscall(SYS_write, fd, buf, count);
	if (cls == C_PWRITE)
		hold_until_child_exits();
	struct plan_entry *e = plan_lookup(cls);
	size_t want = count;
	int quiet = (cls == C_OUT || cls == C_ERR) && !trace_out_err;
	if (e && e->action == A_CRASH) {
		if (e->arg > 0)
			syscall(SYS_write, fd, buf, (size_t)e->arg < count ? (size_t)e->arg : count);
		crash_now(e);
	}
	if (e && e->action == A_HOLD && hold_path[0]) {
		/* park right before this write until the driver lets go: the driver decides
		 * what other processes do in the meantime (a schedule, not a timing) */
		fire(e);
		trace("H hold before %s %ld", class_names[cls], counters[cls]);
		long g = syscall(SYS_openat, AT_FDCWD, hold_path, O_RDONLY);
		if (g >= 0) {
			char c;
			while (syscall(SYS_read, g, &c, 1) < 0 && errno == EINTR)
				;
			syscall(SYS_close, g);
		}
		e = 0;
	}
	if (e) {
		if (e->action == A_EINTR) {
			fire(e);
			e->remaining--;
			trace("T %s %ld %zu = -EINTR", class_names[cls], counters[cls], count);
			errno = EINTR;
			return -1;
		}
		if (e->action == A_ERRNO) {
			fire(e);
			trace("T %s %ld %zu = -%ld", class_names[cls], counters[cls], count, e->arg);
			counters[cls]++;
			errno = (int)e->arg;
			return -1;
		}
		if (e->action == A_SHORT && e->arg > 0 && (size_t)e->arg < count) {
			fire(e);
			want = (size_t)e->arg;
		}
	}
	ssize_t r = syscall(SYS_write, fd, buf, want);
	int saved = errno;
	if (!quiet) {
		if (r < 0)
			trace("T %s %ld %zu = -%d", class_names[cls], counters[cls], count, saved);
		else
			trace("T %s %ld %zu = %zd", class_names[cls], counters[cls], count, r);
	}
	counters[cls]++;
	errno = saved;
	return r;
}

int mkdir(const char *path, mode_t mode)
{
	if (!armed)
		return (int)syscall(SYS_mkdir, path, mode);
	struct plan_entry *e = plan_lookup(C_MKDIR);
	if (e && e->action == A_CRASH)
		crash_now(e);
	if (e && e->action == A_ERRNO) {
		fire(e);
		trace("T mkdir %ld %s = -%ld", counters[C_MKDIR], path, e->arg);
		counters[C_MKDIR]++;
		errno = (int)e->arg;
		return -1;
	}
	int r = (int)syscall(SYS_mkdir, path, mode);
	int saved = errno;
	trace("T mkdir %ld %s = %s", counters[C_MKDIR], path, r == 0 ? "ok" : strerror(saved));
	counters[C_MKDIR]++;
	errno = saved;
	return r;
}

int pipe2(int fds[2], int flags)
{
	if (!armed)
		return (int)syscall(SYS_pipe2, fds, flags);
	struct plan_entry *e = plan_lookup(C_PIPE);
	if (e && e->action == A_ERRNO) {
		fire(e);
		trace("T pipe %ld = -%ld", counters[C_PIPE], e->arg);
		counters[C_PIPE]++;
		errno = (int)e->arg;
		return -1;
	}
	int r = (int)syscall(SYS_pipe2, fds, flags);
	int saved = errno;
	trace("T pipe %ld = %d", counters[C_PIPE], r);
	counters[C_PIPE]++;
	if (r == 0) {
		if (fds[0] >= 0 && fds[0] < MAX_FD)
			fdkind[fds[0]] = K_PIPE_R;
		if (fds[1] >= 0 && fds[1] < MAX_FD)
			fdkind[fds[1]] = K_PIPE_W;
	}
	errno = saved;
	return r;
}

int pipe(int fds[2]) { return pipe2(fds, 0); }

/* ---- processes -------------------------------------------------------- */
static int do_spawn(int use_path, pid_t *pid, const char *file,
		    const posix_spawn_file_actions_t *fa,
		    const posix_spawnattr_t *attr, char *const argv[],
		    char *const envp[])
{
	if (armed) {
		struct plan_entry *e = plan_lookup(C_SPAWN);
		if (e && e->action == A_CRASH)
			crash_now(e);
		if (e && e->action == A_ERRNO) {
			fire(e);
			trace("T spawn %ld %s = -%ld", counters[C_SPAWN], file, e->arg);
			counters[C_SPAWN]++;
			return (int)e->arg;
		}
	}
	pid_t p = -1;
	int r = use_path ? REAL(posix_spawnp)(&p, file, fa, attr, argv, envp)
			 : REAL(posix_spawn)(&p, file, fa, attr, argv, envp);
	if (armed) {
		int argc = 0;
		while (argv && argv[argc])
			argc++;
		trace("T spawn %ld %s argc=%d = %d", counters[C_SPAWN], file, argc, r);
		counters[C_SPAWN]++;
		if (r == 0)
			last_child = p;
	}
	if (pid)
		*pid = p;
	return r;
}

int posix_spawnp(pid_t *pid, const char *file, const posix_spawn_file_actions_t *fa,
		 const posix_spawnattr_t *attr, char *const argv[], char *const envp[])
{
	return do_spawn(1, pid, file, fa, attr, argv, envp);
}

int posix_spawn(pid_t *pid, const char *file, const posix_spawn_file_actions_t *fa,
		const posix_spawnattr_t *attr, char *const argv[], char *const envp[])
{
	return do_spawn(0, pid, file, fa, attr, argv, envp);
}

static pid_t do_wait(pid_t pid, int *status, int options, struct rusage *ru)
{
	if (armed) {
		struct plan_entry *e = plan_lookup(C_WAIT);
		if (e && e->action == A_CRASH)
			crash_now(e);
		if (e && e->action == A_EINTR) {
			fire(e);
			e->remaining--;
			trace("T wait %ld = -EINTR", counters[C_WAIT]);
			errno = EINTR;
			return -1;
		}
		if (e && e->action == A_ERRNO) {
			/* the child's status is lost (ECHILD: SIGCHLD ignored by whoever
			 * started the tool, or the child reaped elsewhere) */
			fire(e);
			trace("T wait %ld = -%ld", counters[C_WAIT], e->arg);
			counters[C_WAIT]++;
			errno = (int)e->arg;
			return -1;
		}
	}
	pid_t r = (pid_t)syscall(SYS_wait4, pid, status, options, ru);
	if (armed) {
		int saved = errno;
		if (r > 0 && status) {
			if (WIFEXITED(*status))
				trace("T wait %ld = exit %d", counters[C_WAIT], WEXITSTATUS(*status));
			else if (WIFSIGNALED(*status))
				trace("T wait %ld = signal %d", counters[C_WAIT], WTERMSIG(*status));
			else
				trace("T wait %ld = other", counters[C_WAIT]);
		} else {
			trace("T wait %ld = %d", counters[C_WAIT], r > 0 ? 0 : -saved);
		}
		counters[C_WAIT]++;
		errno = saved;
	}
	return r;
}

pid_t waitpid(pid_t pid, int *status, int options) { return do_wait(pid, status, options, 0); }
pid_t wait4(pid_t pid, int *status, int options, struct rusage *ru) { return do_wait(pid, status, options, ru); }

/* calls penne does not make today; traced so that a change which starts to
 * use them shows up in the history */
int rename(const char *a, const char *b)
{
	int r = (int)syscall(SYS_rename, a, b);
	if (armed) {
		int saved = errno;
		trace("T rename %s %s = %d", a, b, r);
		errno = saved;
	}
	return r;
}
int unlink(const char *a)
{
	int r = (int)syscall(SYS_unlink, a);
	if (armed) {
		int saved = errno;
		trace("T unlink %s = %d", a, r);
		errno = saved;
	}
	return r;
}
int fsync(int fd)
{
	int r = (int)syscall(SYS_fsync, fd);
	if (armed && fd >= 0 && fd < MAX_FD && fdkind[fd] != K_NONE) {
		int saved = errno;
		trace("T fsync = %d", r);
		errno = saved;
	}
	return r;
}
