/*
 * stub_backend -- scripted stand-in for the program penne pipes its IR into
 * (clang / lli / whatever --backend, PENNE_BACKEND, PENNE_LLI or the config
 * file name). Its behaviour is a script in the environment, set per run by
 * the driver; its identity is the name it was started under (argv[0]), so
 * one binary copied under several names tells the driver which of them ran.
 *
 *   VERIF_STUB_MARKER=<path>   append one record per invocation here
 *   VERIF_STUB_SCRIPT=k=v,k=v,...
 *       wait=none|in|hup   before acting, poll stdin: `in` until readable or
 *                          hung up, `hup` until the writer has closed
 *       read=all|none|<n>  how much of stdin to consume
 *       out=<hex>          bytes to print on stdout
 *       err=<hex>          bytes to print on stderr
 *       exit=<n>           exit status            (default 0)
 *       signal=<n>         die from this signal instead
 *       gate=<fifo>        block opening this FIFO first (a stalled backend)
 *
 * The record: id=<argv0 basename> argc=<n> argv=<hex of NUL-joined args>
 *             stdin_len=<n> stdin_fnv=<hex>  and the bytes go to
 *             <marker>.stdin.<id>
 */
#define _GNU_SOURCE
#include <errno.h>
#include <fcntl.h>
#include <poll.h>
#include <signal.h>
#include <stdint.h>
#include <stdio.h>
#include <sys/stat.h>
#include <stdlib.h>
#include <string.h>
#include <sys/ioctl.h>
#include <sys/resource.h>
#include <unistd.h>

static const char *script_get(const char *script, const char *key, char *buf, size_t n)
{
	size_t kl = strlen(key);
	const char *p = script;
	while (p && *p) {
		const char *end = strchr(p, ',');
		size_t len = end ? (size_t)(end - p) : strlen(p);
		if (len > kl && !strncmp(p, key, kl) && p[kl] == '=') {
			size_t vl = len - kl - 1;
			if (vl >= n)
				vl = n - 1;
			memcpy(buf, p + kl + 1, vl);
			buf[vl] = 0;
			return buf;
		}
		p = end ? end + 1 : 0;
	}
	return 0;
}

static void emit_hex(int fd, const char *hex)
{
	size_t n = strlen(hex) / 2;
	for (size_t i = 0; i < n; i++) {
		unsigned v;
		sscanf(hex + 2 * i, "%2x", &v);
		unsigned char c = (unsigned char)v;
		ssize_t r;
		do {
			r = write(fd, &c, 1);
		} while (r < 0 && errno == EINTR);
	}
}

int main(int argc, char **argv)
{
	const char *script = getenv("VERIF_STUB_SCRIPT");
	const char *marker = getenv("VERIF_STUB_MARKER");
	if (!script)
		script = "";
	char val[65536];
	const char *id = strrchr(argv[0], '/');
	id = id ? id + 1 : argv[0];

	if (script_get(script, "gate", val, sizeof val)) {
		int g = open(val, O_RDONLY);
		if (g >= 0) {
			char c;
			while (read(g, &c, 1) < 0 && errno == EINTR)
				;
			close(g);
		}
	}

	const char *w = script_get(script, "wait", val, sizeof val);
	struct stat st0;
	int stdin_is_pipe = fstat(0, &st0) == 0 && S_ISFIFO(st0.st_mode);
	/* (waiting for the writer only means something on a pipe) */
	if (w && strcmp(w, "none") && stdin_is_pipe) {
		int want_hup = !strcmp(w, "hup");
		if (!want_hup) {
			struct pollfd pfd = { .fd = 0, .events = POLLIN };
			for (;;) {
				int r = poll(&pfd, 1, -1);
				if (r < 0 && errno == EINTR)
					continue;
				break;
			}
		} else {
			/* "the writer has written all it can": it closed its end (POLLHUP;
			 * events=0 still reports it), or the pipe is full and the writer
			 * is blocked. The 1 ms poll only delays, it decides nothing. */
			int cap = fcntl(0, F_GETPIPE_SZ);
			if (cap <= 0)
				cap = 65536;
			int last = -1, still = 0;
			for (;;) {
				struct pollfd pfd = { .fd = 0, .events = 0 };
				int r = poll(&pfd, 1, 1);
				if (r < 0 && errno == EINTR)
					continue;
				if (r > 0 && (pfd.revents & (POLLHUP | POLLERR | POLLNVAL)))
					break;
				int avail = 0;
				if (ioctl(0, FIONREAD, &avail) != 0)
					continue;
				if (avail >= cap)
					break;
				/* A pipe holds 16 buffers; after short writes it is full
				 * before `cap` bytes are in it. More than half a pipe of
				 * data that has not grown for 500 polls (>= 0.5 s) means the
				 * writer is blocked. Inputs smaller than half a pipe never
				 * take this exit, so it cannot change their outcome. */
				if (avail >= cap / 2 && avail == last) {
					if (++still >= 500)
						break;
				} else {
					still = 0;
				}
				last = avail;
			}
		}
	}

	long to_read = -1; /* all */
	const char *rd = script_get(script, "read", val, sizeof val);
	if (rd) {
		if (!strcmp(rd, "none"))
			to_read = 0;
		else if (strcmp(rd, "all"))
			to_read = atol(rd);
	}

	uint64_t fnv = 0xcbf29ce484222325ull;
	long total = 0;
	int savefd = -1;
	if (marker) {
		char path[4096];
		snprintf(path, sizeof path, "%s.stdin.%s", marker, id);
		savefd = open(path, O_WRONLY | O_CREAT | O_TRUNC, 0644);
	}
	char buf[65536];
	while (to_read < 0 || total < to_read) {
		size_t want = sizeof buf;
		if (to_read >= 0 && (long)want > to_read - total)
			want = (size_t)(to_read - total);
		ssize_t r = read(0, buf, want);
		if (r < 0 && errno == EINTR)
			continue;
		if (r <= 0)
			break;
		for (ssize_t i = 0; i < r; i++) {
			fnv ^= (unsigned char)buf[i];
			fnv *= 0x100000001b3ull;
		}
		if (savefd >= 0) {
			ssize_t o = 0;
			while (o < r) {
				ssize_t ww = write(savefd, buf + o, (size_t)(r - o));
				if (ww < 0 && errno == EINTR)
					continue;
				if (ww <= 0)
					break;
				o += ww;
			}
		}
		total += r;
	}
	if (savefd >= 0)
		close(savefd);

	if (marker) {
		int fd = open(marker, O_WRONLY | O_CREAT | O_APPEND, 0644);
		if (fd >= 0) {
			dprintf(fd, "id=%s argc=%d argv=", id, argc);
			for (int i = 1; i < argc; i++) {
				for (const char *p = argv[i]; *p; p++)
					dprintf(fd, "%02x", (unsigned char)*p);
				dprintf(fd, "00");
			}
			dprintf(fd, " stdin_len=%ld stdin_fnv=%016llx\n", total,
				(unsigned long long)fnv);
			close(fd);
		}
	}

	/* produce=1: like a compiler, write the file named after -o (what it holds
	 * is the run's marker id and exit code: enough to tell a fresh one from a stale one) */
	if (script_get(script, "produce", val, sizeof val) && atoi(val)) {
		for (int i = 1; i + 1 < argc; i++) {
			if (!strcmp(argv[i], "-o")) {
				int ofd = open(argv[i + 1], O_WRONLY | O_CREAT | O_TRUNC, 0755);
				if (ofd >= 0) {
					dprintf(ofd, "produced by %s\n", id);
					close(ofd);
				}
			}
		}
	}
	if (script_get(script, "out", val, sizeof val))
		emit_hex(1, val);
	if (script_get(script, "err", val, sizeof val))
		emit_hex(2, val);

	if (script_get(script, "signal", val, sizeof val)) {
		int sig = atoi(val);
		struct rlimit rl = { 0, 0 };
		setrlimit(RLIMIT_CORE, &rl);
		signal(sig, SIG_DFL);
		raise(sig);
		kill(getpid(), SIGKILL);
	}
	int code = 0;
	if (script_get(script, "exit", val, sizeof val))
		code = atoi(val);
	return code;
}
