"""fuzzsim -- C19: the token fuzzer emits only valid lexemes.

The fuzzer's input *is* its random stream, so the stream sits behind the
entropy seam (simos getrandom): one entropy seed = one exactly repeatable
output. Two execution modes, same oracle (both REAL lexers, via pworker):
  cli     `penne fuzz tokens --kb K --out-dir D` (or --verbose dump) in a fresh
          process under simos, then `pworker lexcheck`
  inproc  `pworker fuzz`: fill_to_capacity_with_tokens(95, cap K*1096, 0) on a
          fresh thread per run after re-seeding the stream
"""
import json
import os
import shutil
import time

from common import *  # noqa: F401,F403
import common

PROP = "C19"
TAG_CLI = "C19/cli"
TAG_INPROC = "C19/inproc"

KB_CHOICES = [1, 1, 1, 1, 2, 2, 2, 3, 4, 4, 5, 8, 8, 16, 32, 64, 100, 300, 1000]     # (the in-process batches use the first 14)

TIERS = {
    # cli runs, inproc batches, runs per batch
    "quick": (160, 48, 40),
    "thorough": (6000, 1600, 250),
}


def cli_plan(seed, i):
    rng = rng_for(seed, TAG_CLI, i)
    kb = rng.choice(KB_CHOICES)
    entropy = rng.getrandbits(64)
    verbose_dump = rng.random() < 0.12 and kb <= 8
    stale = (not verbose_dump) and rng.random() < 0.25   # an earlier, longer output is already there
    clock = (rng.randrange(10**9, 2 * 10**18), rng.choice([1, 1000, 10**6, 10**9]))
    pid = rng.randrange(2, 4_000_000)
    # a fault on the write of the output file (a fifth of the runs that write one): the tool
    # may fail, it may not claim success with less than it promised
    fault = None
    if not verbose_dump and rng.random() < 0.2:
        fault = rng.choice([["fwrite:0:errno:28"], ["fwrite:0:errno:5"], ["fwrite:0:short:%d" % rng.choice([1, 512, 1024]), "fwrite:1:errno:28"],
                            ["fwrite:0:eintr:1"], ["fwrite:0:short:%d" % rng.choice([1, 700])]])
    return {"mode": "cli", "i": i, "kb": kb, "entropy": entropy,
            "verbose_dump": verbose_dump, "stale": stale, "clock": clock, "pid": pid, "fault": fault,
            "run_seed": run_seed(seed, TAG_CLI, i)}


def classify(v, kb):
    if v.get("lexer_panic"):
        return "lexer_panic", "a lexer panicked"
    if not v.get("utf8", False):
        return "invalid_utf8", "output is not valid UTF-8"
    if v["len"] < kb * 1024:
        return "too_short", "%d bytes < %d KiB" % (v["len"], kb)
    if v["delta_codes"]:
        return "invalid_lexeme_delta_E%d" % v["delta_codes"][0], v.get("delta_first") or ""
    if v["alpha_errors"]:
        return "invalid_lexeme_alpha", v.get("alpha_first") or ""
    return None, ""


def lexcheck(path, cwd):
    r = run_proc([PWORKER, "lexcheck", path], cwd, base_env())
    if r.rc != 0 or not r.out.strip():
        if r.rc == 101 or r.sig:
            return {"lexer_panic": True, "detail": r.brief()}
        raise HarnessError("pworker lexcheck failed: %s" % r.brief())
    return json.loads(r.out.decode().splitlines()[0])


def exec_cli(plan, keep=False):
    """Run one CLI plan. Returns dict(result)."""
    wd = fresh_dir(os.path.join(work_root(), "C19", "cli-%d" % plan["i"]))
    env = sim_env(base_env(), entropy=plan["entropy"], clock=tuple(plan["clock"]), plan=plan.get("fault"),
                  pid=plan["pid"], trace=os.path.join(wd, "trace.txt"), trace_stdio=False)
    kb = plan["kb"]
    res = {"i": plan["i"], "kb": kb, "mode": "cli", "class": None}
    if plan["verbose_dump"]:
        argv = [PENNE, "fuzz", "tokens", "--kb", str(kb), "--verbose", "--color=never"]
    else:
        argv = [PENNE, "fuzz", "tokens", "--kb", str(kb), "--out-dir", "out"]
        os.makedirs(os.path.join(wd, "out"))
        if plan.get("stale"):
            with open(os.path.join(wd, "out", "fuzzed_tokens.pn"), "wb") as f:
                f.write(('"stale text of an earlier, longer run \xe2\x82\xac ' + "x" * 90 + '"\n').encode("latin-1") * (kb * 1096 * 3 // 130 + 8))
    r = run_proc(argv, wd, env)
    trace = read_trace(os.path.join(wd, "trace.txt"))
    res["entropy_requests"] = sum(1 for l in trace if l.startswith("R "))
    res["faults_fired"] = sum(1 for l in trace if l.startswith("F "))
    hard = bool(plan.get("fault")) and any(":errno:" in p for p in plan["fault"])
    text_path = os.path.join(wd, "text.pn")
    if r.timeout:
        res["class"] = "hang"
        res["detail"] = "penne fuzz did not finish in %ds" % TIMEOUT_S
    elif hard and res["faults_fired"] and r.rc == 1 and not r.sig:
        res["fault_reported"] = True      # the write failed and the tool said so
    elif r.rc != 0 or r.sig:
        res["class"] = "fuzzer_crash"
        res["detail"] = json.dumps(r.brief())
    else:
        if plan["verbose_dump"]:
            out = r.out
            head = b"Dumping...\n"
            a = out.find(head)
            tail = b"\n\nDone.\n"
            if a < 0 or not out.endswith(tail):
                res["class"] = "dump_malformed"
                res["detail"] = repr(out[:200])
                data = b""
            else:
                data = out[a + len(head):len(out) - len(tail)]
            with open(text_path, "wb") as f:
                f.write(data)
        else:
            src = os.path.join(wd, "out", "fuzzed_tokens.pn")
            if not os.path.exists(src):
                res["class"] = "no_output_file"
                res["detail"] = json.dumps(r.brief())
            else:
                os.replace(src, text_path)
        if res["class"] is None:
            v = lexcheck("text.pn", wd)
            res["fnv"] = v.get("fnv")
            res["len"] = v.get("len")
            res["stats"] = v.get("stats")
            cls, detail = classify(v, kb)
            res["class"] = cls
            res["detail"] = detail
    if res["class"] and os.path.exists(text_path):
        with open(text_path, "rb") as f:
            res["text"] = f.read().decode("utf-8", errors="surrogateescape")
    if not keep:
        shutil.rmtree(wd, ignore_errors=True)
    return res


def _cli_job(args):
    seed, i = args
    return exec_cli(cli_plan(seed, i))


def inproc_plan(seed, b, per_batch):
    rng = rng_for(seed, TAG_INPROC, b)
    kb = rng.choice(KB_CHOICES[:14])
    n = per_batch if kb <= 8 else max(4, per_batch // 8)
    return {"mode": "inproc", "b": b, "kb": kb, "n": n, "start": b * 100000,
            "seed": run_seed(seed, TAG_INPROC, 0)}


def exec_inproc(plan, keep=False):
    wd = fresh_dir(os.path.join(work_root(), "C19", "inproc-%d" % plan["b"]))
    env = sim_env(base_env(), entropy=1)
    r = run_proc([PWORKER, "fuzz", str(plan["kb"]), wd, str(plan["seed"]),
                  str(plan["start"]), str(plan["n"])], wd, env, timeout=1200)
    res = {"b": plan["b"], "kb": plan["kb"], "n": plan["n"], "failures": [], "summary": None}
    if r.rc != 0 or r.sig or r.timeout:
        res["failures"].append({"class": "fuzzer_crash", "i": plan["start"], "kb": plan["kb"],
                                "detail": json.dumps(r.brief())})
    for line in r.out.decode(errors="replace").splitlines():
        try:
            rec = json.loads(line)
        except ValueError:
            continue
        if rec.get("kind") == "failure":
            cls = rec["class"]
            d = rec.get("detail") or {}
            if cls == "invalid_lexeme_delta" and isinstance(d, dict) and d.get("delta_codes"):
                cls = "invalid_lexeme_delta_E%d" % d["delta_codes"][0]
            f = {"class": cls, "i": rec["i"], "kb": rec["kb"], "entropy": int(rec["entropy"]),
                 "fnv": rec.get("fnv"), "detail": json.dumps(d)[:600]}
            tf = rec.get("text_file")
            if tf and os.path.exists(tf):
                with open(tf, "rb") as fh:
                    f["text"] = fh.read().decode("utf-8", errors="surrogateescape")
            res["failures"].append(f)
        elif rec.get("kind") == "summary":
            res["summary"] = rec
    if not keep:
        shutil.rmtree(wd, ignore_errors=True)
    return res


def _inproc_job(args):
    seed, b, per_batch = args
    return exec_inproc(inproc_plan(seed, b, per_batch))


# ------------------------------------------------------- minimisation --
def ddmin(items, test, max_tests=400):
    """Classic ddmin over a list; `test(list)` is True when the failure
    persists."""
    n = 2
    tests = 0
    while len(items) >= 2 and tests < max_tests and not min_expired():
        chunk = max(1, len(items) // n)
        subsets = [items[i:i + chunk] for i in range(0, len(items), chunk)]
        reduced = False
        for k in range(len(subsets)):
            complement = [x for j, s in enumerate(subsets) if j != k for x in s]
            tests += 1
            if complement and test(complement):
                items = complement
                n = max(n - 1, 2)
                reduced = True
                break
        if not reduced:
            if n >= len(items):
                break
            n = min(len(items), n * 2)
    return items


def shrink_text(text, cls):
    """Smallest substring (lines, then characters) on which the same lexer
    still reports the same class."""
    wd = fresh_dir(os.path.join(work_root(), "C19", "shrink-%d" % os.getpid()))

    def still_fails(parts, joiner):
        data = joiner.join(parts).encode("utf-8", errors="surrogateescape")
        with open(os.path.join(wd, "s.pn"), "wb") as f:
            f.write(data)
        try:
            v = lexcheck("s.pn", wd)
        except HarnessError:
            return False
        c, _ = classify(v, 0)
        return c == cls

    if cls in ("too_short", "fuzzer_crash", "hang", "no_output_file", "dump_malformed"):
        shutil.rmtree(wd, ignore_errors=True)
        return None
    lines = text.split("\n")
    if not still_fails(lines, "\n"):
        shutil.rmtree(wd, ignore_errors=True)
        return None
    lines = ddmin(lines, lambda p: still_fails(p, "\n"))
    chars = list("\n".join(lines))
    if len(chars) <= 4000:
        chars = ddmin(chars, lambda p: still_fails(p, ""), max_tests=600)
    shutil.rmtree(wd, ignore_errors=True)
    return "".join(chars)


def make_finding(rec, plan):
    cls = rec["class"]
    set_min_budget()
    record = {"engine": "fuzzsim", "plan": plan, "run_seed": plan.get("run_seed", plan.get("entropy")),
              "observed": {"class": cls, "detail": rec.get("detail"), "fnv": rec.get("fnv")}}
    text = rec.get("text")
    if text is not None:
        snippet = shrink_text(text, cls)
        record["minimised_snippet"] = snippet
    summary = "%s: kb=%s %s" % (cls, plan.get("kb"), (rec.get("detail") or "")[:300])
    if record.get("minimised_snippet"):
        summary += "\n  minimised text: %r" % record["minimised_snippet"][:200]
    return Finding(PROP, cls, record, signature=cls, summary=summary)


# ---------------------------------------------------------------- main --
def merge_stats(total, stats):
    if not stats:
        return
    for k, v in stats.get("kinds", {}).items():
        total["kinds"][k] = total["kinds"].get(k, 0) + v
    total["glued"].update(stats.get("glued_pairs", []))


def run(tier, seed):
    t0 = time.time()
    n_cli, n_batches, per_batch = TIERS[tier]
    disable_aslr()
    findings = []
    stats = {"kinds": {}, "glued": set()}
    probes = {}
    hashes = set()
    outputs = 0
    total_bytes = 0
    kb_hist = {}
    ent_req = 0

    cli_results = parallel_map(_cli_job, [(seed, i) for i in range(n_cli)])
    samples = []
    for rec in cli_results:
        outputs += 1
        kb_hist[rec["kb"]] = kb_hist.get(rec["kb"], 0) + 1
        ent_req += rec.get("entropy_requests", 0)
        if rec.get("fnv"):
            hashes.add(rec["fnv"])
            total_bytes += rec.get("len") or 0
        merge_stats(stats, rec.get("stats"))
        if rec["class"]:
            findings.append(make_finding(rec, cli_plan(seed, rec["i"])))
        elif len(samples) < 2:
            p = cli_plan(seed, rec["i"])
            samples.append({"mode": "cli", "argv": "penne fuzz tokens --kb %d %s" % (p["kb"], "--verbose --color=never" if p["verbose_dump"] else "--out-dir out"),
                            "entropy_seed": p["entropy"], "bytes": rec.get("len"), "text_fnv": rec.get("fnv")})

    inproc_distinct = 0
    det_fnv = []
    batch_results = parallel_map(_inproc_job, [(seed, b, per_batch) for b in range(n_batches)])
    for res in batch_results:
        plan = inproc_plan(seed, res["b"], per_batch)
        s = res["summary"]
        if s:
            outputs += s["n"]
            kb_hist[res["kb"]] = kb_hist.get(res["kb"], 0) + s["n"]
            inproc_distinct += s["distinct"]
            total_bytes += s["total_bytes"]
            merge_stats(stats, s.get("stats"))
            det_fnv.append(s["combined_fnv"])
            for k, v in s.get("probes", {}).items():
                probes[k] = probes.get(k, 0) + v
            if len(samples) < 4:
                samples.append({"mode": "inproc", "kb": res["kb"], "runs": s["n"],
                                "stream_seed": plan["seed"], "first_index": plan["start"],
                                "combined_text_fnv": s["combined_fnv"]})
        for f in res["failures"]:
            p = dict(plan)
            p["index"] = f["i"]
            p["entropy"] = f.get("entropy")
            p["run_seed"] = "%s-%s" % (plan["seed"], f["i"])
            findings.append(make_finding(f, p))

    n_viol, n_known = report_findings(PROP, findings)
    wall = time.time() - t0
    all_kinds = 66
    coverage = {
        "evaluations": outputs,
        "distinct_nontrivial": len(hashes) + inproc_distinct,
        "rule": "one evaluation = one complete fuzzer output (>= K KiB) generated by the real fuzzer from one entropy stream and lexed by both real lexers; distinct = distinct FNV-1a hashes of the output text (cli: set over all runs; inproc: per-batch sets summed, streams differ per index); every output is non-trivial (>= 1 KiB of tokens)",
        "samples": samples,
        "exhaustive": False,
        "runs_per_hour": rate_per_hour(outputs, wall),
        "seeds_per_hour": rate_per_hour(outputs, wall),
        "simulated_time": "none: the fuzzer has no clock; the simulated clock/pid served by simos were never read (0 reads expected)",
        "total_output_bytes": total_bytes,
        "kb_histogram": {str(k): v for k, v in sorted(kb_hist.items())},
        "fault_kinds": {"entropy": {"configured": outputs, "fired_getrandom_calls_cli": ent_req},
                        "clock": {"configured": n_cli}, "pid": {"configured": n_cli},
                        "output_file_write_fault": {"configured": sum(1 for i in range(n_cli) if cli_plan(seed, i).get("fault")),
                                                    "fired": sum(1 for r in cli_results if r.get("faults_fired")),
                                                    "reported_as_failure": sum(1 for r in cli_results if r.get("fault_reported"))}},
        "token_kinds_seen": len(stats["kinds"]),
        "token_kinds_possible": all_kinds,
        "token_kind_counts": dict(sorted(stats["kinds"].items())),
        "glued_adjacent_kind_pairs": len(stats["glued"]),
        "rare_branch_probes": probes,
        "inproc_batch_fnv_digest": sha("".join(det_fnv)),
        "aslr_disabled": aslr_disabled(),
        "components": COMPONENTS,
        "known_findings_matched": n_known,
    }
    write_evidence(PROP, tier, seed, "exploration", coverage, wall, n_viol, [
        "simos.so's getrandom stream is the only entropy the fuzzer reads (rand::rng() -> getrandom crate -> libc getrandom; reseeds go through the same seam)",
        "pworker calls the same public lexer entry points the CLI uses (delta::lexer::lex, alpha::lexer::lex)",
    ])
    print("C19 %s: %d outputs (%d cli, %d inproc batches), %d distinct, %d token kinds, %d glued pairs, %d violation(s), %.1fs"
          % (tier, outputs, n_cli, n_batches, coverage["distinct_nontrivial"], len(stats["kinds"]), len(stats["glued"]), n_viol, wall))
    return 1 if n_viol else 0


def replay(record):
    disable_aslr()
    plan = record["plan"]
    if plan["mode"] == "cli":
        rec = exec_cli(plan)
    else:
        one = dict(plan)
        one["start"] = plan["index"]
        one["n"] = 1
        res = exec_inproc(one)
        rec = res["failures"][0] if res["failures"] else {"class": None}
    want = record["observed"]
    same = rec.get("class") == want["class"] and (want.get("fnv") is None or rec.get("fnv") == want["fnv"])
    print("replay: observed class=%s fnv=%s; recorded class=%s fnv=%s" %
          (rec.get("class"), rec.get("fnv"), want["class"], want.get("fnv")))
    if rec.get("class"):
        print("VIOLATION property=%s replay=%s" % (PROP, record.get("_path", "?")))
        return 1 if same else 3
    return 0


def determinism_log(seed, indices):
    """Event log lines for the selftest: everything observable about each
    run, nothing that depends on pids or absolute paths."""
    lines = []
    for rec in parallel_map(_cli_job, [(seed, i) for i in indices]):
        lines.append("C19 cli %d kb=%d class=%s fnv=%s len=%s ent=%s" %
                     (rec["i"], rec["kb"], rec["class"], rec.get("fnv"), rec.get("len"), rec.get("entropy_requests")))
    for res in parallel_map(_inproc_job, [(seed, b, 10) for b in indices[:max(4, len(indices) // 10)]]):
        s = res["summary"] or {}
        lines.append("C19 inproc %d kb=%d n=%s fnv=%s fail=%d" %
                     (res["b"], res["kb"], s.get("n"), s.get("combined_fnv"), len(res["failures"])))
    return lines
