"""clisim -- C18: the command line tool reports outcomes faithfully.

The REAL penne CLI runs against the simulated OS (simos.so): a fault-free
census run records every intercepted call of a scenario; then every
(call site, applicable fault) pair is injected alone, a scripted backend plays
clang/lli, both parent/child orders on the IR pipe are forced, backend
resolution is enumerated exhaustively, and a seeded swarm draws multi-fault
plans. A small reference model predicts the exit status from the scenario and
the calls that failed according to the trace.
"""
import errno
import json
import os
import random
import re
import shutil
import time

from common import *  # noqa: F401,F403
import pngen

PROP = "C18"
TAG_SC = "C18/scenario"
TAG_SWARM = "C18/swarm"

TIERS = {
    "quick": dict(enum_scenarios=16, stdio_sites=6, swarm=400, real_lli=12, crash=120),
    "thorough": dict(enum_scenarios=120, stdio_sites=40, swarm=80000, real_lli=300, crash=8000, real_clang=150, render=1800, verbose_large=300, blank_module=240, overlap=600, rerun=1500, stale_binary=300, same_dir_overlap=600),
}

ESC = b"\x1b"
BOX = set("─│╭╮╯╰┬┴├┤┼·╴╶▲▼")
CODE = re.compile(rb"\[([EL]\d+)\]")
ARCH = "x86_64"

E = errno
HARD_ERRNOS = {
    "open_r": [E.EACCES, E.EMFILE, E.EIO, E.ENOENT],
    "open_w": [E.EACCES, E.ENOSPC, E.EROFS, E.EISDIR, E.EMFILE],
    "read": [E.EIO],
    "fwrite": [E.ENOSPC, E.EIO, E.EDQUOT],
    "pwrite": [],     # EPIPE is a consequence of what the backend does (scripts `read=none|N`), never an independent fault
    "mkdir": [E.EACCES, E.ENOSPC, E.EROFS],
    "pipe": [E.EMFILE, E.ENFILE],
    "spawn": [E.EAGAIN, E.ENOMEM, E.ENOENT, E.EACCES],
    "wait": [E.ECHILD],
    "out": [E.EPIPE, E.ENOSPC],
    "err": [E.EPIPE, E.ENOSPC],
}


# -------------------------------------------------------------- scenarios --
def make_inputs(rng, kind, force=None):
    """-> (files: name->bytes, inputs: argv file list, compile_ok, inputs_ok, modules)"""
    if kind == "valid_single":
        prog = pngen.generate(rng, n_funcs=rng.randint(2, 6))
        # source files need not be called *.pn
        name = rng.choice(["main.pn"] * 5 + ["prog.penne", "prog", "my.prog.txt", "sub/dir/deep.pn", "a.b.pn", ".hidden.pn", "dir.d/x.y.pn",
                                             "lib\udcfe.pn",    # not valid UTF-8 (a lone 0xFE byte)
                                             "my prog.pn", "h\u00e9llo w\u00f6rld.pn", "it's \"quoted\".pn", "a=b.pn", "./-dash.pn", "semi;colon&amp.pn",
                                             "with space/and more/x.pn", "%s.pn" % ("long" * 40)])
        return {name: prog.single_file().encode()}, [name], True, True, [name]
    if kind in ("valid_multi", "invalid_multi"):
        prog = pngen.generate(rng, n_funcs=rng.randint(3, 7))
        sp = pngen.random_split(prog, rng, k=rng.choice([2, 3]))
        files = {k: v.encode() for k, v in sp.file_map(rng).items()}
        names = list(sp.files)
        if kind == "invalid_multi":
            victim = names[rng.randrange(len(names))]
            files[victim] += b"\nfn zz_bad() -> i32\n{\n\treturn: no_such_thing\n}\n"
            return files, names, False, True, names
        return files, names, True, True, names
    if kind == "invalid_single":
        prog = pngen.generate(rng, n_funcs=2)
        text = prog.single_file() + "\nfn zz_bad() -> i32\n{\n\tvar x: u8 = true;\n\treturn: x\n}\n"
        return {"main.pn": text.encode()}, ["main.pn"], False, True, ["main.pn"]
    if kind == "syntax_error":
        return {"main.pn": b"fn main() -> i32\n{\n\treturn: 1 +\n}\n"}, ["main.pn"], False, True, ["main.pn"]
    if kind == "missing_file":
        prog = pngen.generate(rng, n_funcs=2)
        return {"main.pn": prog.single_file().encode()}, ["main.pn", "absent.pn"], True, False, ["main.pn"]
    if kind == "directory_as_file":
        prog = pngen.generate(rng, n_funcs=2)
        return {"main.pn": prog.single_file().encode(), "adir.pn/keep": b""}, ["main.pn", "adir.pn"], True, False, ["main.pn"]
    if kind == "non_utf8":
        return {"main.pn": b"fn main() -> i32\n{\n\treturn: 1\n}\n// \xff\xfe\n"}, ["main.pn"], True, False, ["main.pn"]
    if kind == "empty_file":
        return {"main.pn": b""}, ["main.pn"], False, True, ["main.pn"]
    if kind == "zoo_invalid":
        import detsim
        zoo = detsim.zoo_sets(1)
        k = rng.randrange(len(zoo))
        if force and force.get("zoo_index") is not None:
            k = force["zoo_index"] % len(zoo)       # the render grid walks the zoo systematically
        z = zoo[k]
        return {"main.pn": z["files"]["zoo.pn"]}, ["main.pn"], None, True, ["main.pn"]
    if kind == "valid_with_lints":
        prog = pngen.generate(rng, n_funcs=rng.randint(2, 5))
        text = prog.single_file() + ("\nfn zz_linty() -> i32\n{\n\tvar x = 33;\n\tvar t: u8 = 300;\n\tif x == 50\n\t{\n\t\tloop;\n\t}\n"
                                     "\treturn: x\n}\n")
        return {"main.pn": text.encode()}, ["main.pn"], True, True, ["main.pn"]
    if kind == "valid_large":
        prog = pngen.generate(rng, n_funcs=rng.randint(60, 160))
        text = prog.single_file()
        if rng.random() < 0.6:
            # comments full of two- and three-byte characters: whatever block size a reader uses,
            # some character straddles a block boundary
            shift = rng.randrange(3)
            text = "//" + "x" * shift + "\n" + "\n".join(line + ("  // \u5b57\u00e9\u8a9e\u20ac\u672c\u65e5" if k % 2 == 0 else "") for k, line in enumerate(text.split("\n")))
        return {"main.pn": text.encode()}, ["main.pn"], True, True, ["main.pn"]
    if kind == "compiler_panics":
        # an input on which the compiler itself is known to panic (C02's business): whatever it does,
        # this is no success - non-zero exit, no backend, no claim of a complete run
        with open(os.path.join(REPO, "tests", "samples", "invalid", "missing_address_slice_pointer.pn"), "rb") as f:
            bad = f.read()
        prog = pngen.generate(rng, n_funcs=2, with_main=False, prefix="q")
        return {"main.pn": bad, "helper.pn": prog.single_file().encode()}, rng.choice([["main.pn", "helper.pn"], ["helper.pn", "main.pn"]]), False, True, ["main.pn", "helper.pn"]
    if kind == "valid_multi_blank":
        # a module without a single declaration among the inputs (comments, blank lines): it is a
        # module like any other - accepted, and it gets its artefact
        prog = pngen.generate(rng, n_funcs=rng.randint(3, 6))
        sp = pngen.random_split(prog, rng, k=rng.choice([2, 3]))
        files = {k: v.encode() for k, v in sp.file_map(rng).items()}
        names = list(sp.files)
        blank = rng.choice(["notes.pn", "zz_todo.pn", "doc/readme.pn"])
        files[blank] = [b"// nothing here yet\n", b"\n\n", b"// TODO\n// more to come\n\n", b" \t\n"][(force or {}).get("blank_text", 0) % 4]
        names.insert(rng.randrange(len(names) + 1), blank)
        return files, names, True, True, names
    if kind == "many_errors":
        # a failing compilation with a chosen number of diagnostics (one undefined name per
        # function): whatever their number, the exit status is not 0
        n = (force or {}).get("n_errors", 256)
        bad = "".join("fn zz_f%d() -> i32\n{\n\treturn: zz_nope%d\n}\n\n" % (i, i) for i in range(n))
        if (force or {}).get("two_modules"):
            prog = pngen.generate(rng, n_funcs=2)
            return {"main.pn": prog.single_file().encode(), "bad.pn": bad.encode()}, ["main.pn", "bad.pn"], False, True, ["main.pn", "bad.pn"]
        return {"main.pn": ("fn main() -> i32\n{\n\treturn: 0\n}\n\n" + bad).encode()}, ["main.pn"], False, True, ["main.pn"]
    if kind == "package_only":
        pkg = rng.choice(["core:text", "core:text/char.pn", "vendor:libc"])
        return {}, [pkg], True, True, []
    if kind == "with_core":
        src = b'import "core:text/char.pn";\n\nfn main() -> i32\n{\n\tvar result = 0;\n\tvar t = is_control_char(0);\n\tif t == false\n\t{\n\t\tresult = 1;\n\t}\n\treturn: result\n}\n'
        return {"main.pn": src}, ["main.pn", "core:text"], True, True, ["main.pn"]
    raise ValueError(kind)


INPUT_KINDS = ["valid_single", "valid_multi", "invalid_single", "invalid_multi", "syntax_error", "missing_file",
               "directory_as_file", "non_utf8", "empty_file", "with_core", "valid_large", "package_only", "zoo_invalid",
               "valid_with_lints", "compiler_panics"]


def make_scenario(rng, sub=None, input_kind=None, force=None):
    """Draw one scenario. `force` pins some options (used by the fixed
    enumeration list)."""
    force = force or {}
    sub = sub or rng.choice(["build", "build_default", "run", "emit"])
    input_kind = input_kind or rng.choice(INPUT_KINDS[:2] * 3 + INPUT_KINDS)
    files, inputs, compile_ok, inputs_ok, modules = make_inputs(rng, input_kind, force)
    if compile_ok is None:
        compile_ok = None      # decided by the census (see run_census)
    sc = {"sub": sub, "input_kind": input_kind, "may_panic": input_kind == "compiler_panics", "files": files, "inputs": inputs, "compile_ok": compile_ok,
          "inputs_ok": inputs_ok, "modules": modules, "env": {}, "opts": [], "stubs": [], "config_ok": True,
          "backend_args": [], "link_args": [], "wasm": False, "pre_dirs": [], "pre_files": {}}
    opt = lambda name, p: force.get(name, rng.random() < p)  # noqa: E731
    silent = opt("silent", 0.15)
    verbose = (not silent) and opt("verbose", 0.15)
    sc["silent"], sc["verbose"] = silent, verbose
    if silent:
        sc["opts"].append("--silent")
        if force.get("silent_and_verbose", rng.random() < 0.25):
            # both flags: --silent wins ("show no output")
            sc["opts"].insert(rng.randrange(len(sc["opts"]) + 1), "--verbose")
    if verbose:
        sc["opts"].append("--verbose")
    color = force.get("color", rng.choice(["never", "never", "never", "always", "auto"]))
    arrows = force.get("arrows", rng.choice(["ascii", "ascii", "unicode"]))
    sc["color"], sc["arrows"] = color, arrows
    sc["opts"] += ["--color=" + color, "--arrows=" + arrows]
    if color == "auto":
        sc["env"]["TERM"] = rng.choice(["dumb", "xterm-256color"])
    # out-dir
    od_kind = force.get("out_dir", rng.choice(["absent", "fresh", "fresh", "existing", "nested", "stale", "dot", "spaced"] if sub != "emit" else ["fresh", "fresh", "existing", "nested", "stale", "dot", "spaced", "absent"]))
    sc["out_dir_kind"] = od_kind
    sc["out_dir"] = None
    if od_kind != "absent":
        sc["out_dir"] = {"fresh": "out", "existing": "out", "nested": "build/ir/out", "stale": "out", "dot": rng.choice([".", "./"]), "spaced": "out dir/\u00e9 x=y"}[od_kind]
        if od_kind == "existing":
            sc["pre_dirs"].append("out")
        if od_kind == "stale":
            # an earlier emit left artefacts behind (newer than the sources)
            for m in modules:
                rel = artefact_rel(m)
                sc["pre_files"][os.path.join("out", rel)] = (("; ModuleID = '%s'\n" % m) + "; stale artefact of an earlier emit, longer than any new one\n" * 6000).encode("utf-8", "replace")
        sc["opts"] += ["--out-dir", sc["out_dir"]]
    if sub in ("build", "build_default", "emit") and opt("wasm", 0.12):
        sc["wasm"] = True
        sc["opts"].append("--wasm")
    # backend resolution
    sc["backend_id"] = None
    if sub in ("build", "build_default", "run"):
        is_run = sub == "run"
        default = "lli" if is_run else "clang"
        envvar = "PENNE_LLI" if is_run else "PENNE_BACKEND"
        cell = force.get("cell")
        if cell is None:
            cell = (rng.random() < 0.3, rng.random() < 0.3, (not is_run) and rng.random() < 0.3)
        use_flag, use_env, use_cfg = cell
        sc["cell"] = [bool(use_flag), bool(use_env), bool(use_cfg)]
        sc["stubs"].append(default)
        chosen = default
        cfg_lines = []
        if use_cfg and not is_run:
            sc["stubs"].append("cfgbe")
            cfg_lines.append('backend = "cfgbe"')
            chosen = "cfgbe"
        if use_env:
            sc["stubs"].append("envbe")
            sc["env"][envvar] = "envbe"
            chosen = "envbe"
            if not use_flag and force.get("empty_env", rng.random() < 0.08):
                # set but empty: the backend is the empty string, which cannot be spawned
                sc["env"][envvar] = ""
                chosen = None
        if use_flag:
            sc["stubs"].append("flagbe")
            sc["opts"] += ["--backend", "flagbe"]
            chosen = "flagbe"
            if envvar in sc["env"] and sc["env"][envvar] == "":
                sc["env"][envvar] = "envbe"
        sc["backend_id"] = chosen
        # the "other" variable must not matter
        if rng.random() < 0.2:
            sc["env"]["PENNE_BACKEND" if is_run else "PENNE_LLI"] = "wrongbe"
            sc["stubs"].append("wrongbe")
        if opt("backend_args", 0.25):
            sc["backend_args"] = rng.choice([["-O1"], ["-O2", "-g"], ["--flag=x"], ["-fno-common"], ["-fno-color-diagnostics", "-O1"], ["--sysroot=/opt/x-Sdk/usr"]])
            sc["opts"] += ["--backend-args=" + " ".join(sc["backend_args"])]
        cfg_variant = force.get("config", rng.choice(["none"] * 4 + ["valid", "malformed", "unknown_field", "missing"]) if not is_run else "none")
        if not is_run:
            if use_cfg and cfg_variant == "none":
                cfg_variant = "valid"
            if opt("link_args", 0.2):
                sc["link_args"] = rng.choice([["-lm"], ["--gc-sections", "-lc"]])
                sc["opts"] += ["--link-args=" + " ".join(sc["link_args"])]
            if cfg_variant != "none":
                sc["opts"] += ["--config", "penne.toml"]
                if cfg_variant == "valid":
                    if not sc["backend_args"] and rng.random() < 0.4:
                        sc["backend_args"] = ["-O3"]
                        cfg_lines.append('backend_args = "-O3"')
                    if not sc["link_args"] and rng.random() < 0.3:
                        sc["link_args"] = rng.choice([["-lz"], ["--gc-sections", "--as-needed"]])
                        cfg_lines.append('link_args = "%s"' % " ".join(sc["link_args"]))
                    if not sc["wasm"] and rng.random() < 0.15:
                        sc["wasm"] = True
                        cfg_lines.append("wasm = true")
                    if force.get("cfg_stdout", rng.random() < 0.4):
                        # output options in the config file that contradict the flags: the flags win
                        cfg_lines.append("[stdout_options]")
                        cfg_lines.append('color = "%s"' % ("Always" if color != "always" else "Never"))
                        cfg_lines.append('arrows = "%s"' % ("Unicode" if arrows == "ascii" else "Ascii"))
                        sc["cfg_stdout"] = True
                    sc["files"]["penne.toml"] = ("\n".join(cfg_lines) + "\n").encode()
                elif cfg_variant == "malformed":
                    sc["files"]["penne.toml"] = b"backend = [unterminated\n"
                    sc["config_ok"] = False
                elif cfg_variant == "unknown_field":
                    sc["files"]["penne.toml"] = b'backend = "cfgbe"\nno_such_option = 1\n'
                    sc["config_ok"] = False
                elif cfg_variant == "missing":
                    sc["config_ok"] = False
            sc["config_variant"] = cfg_variant
            if sub == "build" and force.get("dash_o", True) and opt("dash_o", 0.2):
                sc["opts"] += ["-o", "custom.bin"]
                sc["dash_o"] = "custom.bin"
    # backend script
    script = force.get("script")
    if script is None:
        r = rng.random()
        if r < 0.55:
            script = {"read": "all", "exit": 0}
        elif r < 0.75:
            script = {"read": "all", "exit": rng.choice([1, 2, 3, 42, 127, 255])}
        elif r < 0.85:
            script = {"read": "all", "signal": rng.choice([6, 9, 11])}
        elif r < 0.93:
            script = {"read": rng.choice(["none", "10"]), "exit": rng.choice([0, 0, 1, 7])}
        else:
            script = {"read": "all", "exit": 0}
        if rng.random() < 0.4:
            script["out"] = rng.choice(["hello\n", "a\nb\n", "x", "€\n"]).encode().hex()
        if rng.random() < 0.2:
            script["err"] = b"warning: something\n".hex()
    sc["script"] = script
    sc["order"] = force.get("order", rng.choice(["parent_first", "parent_first", "child_first"]))
    if script.get("read", "all") != "none":
        # a backend that reads anything cannot exit before the parent wrote:
        # only the parent-first order exists
        sc["order"] = "parent_first"
    return sc


def artefact_rel(module):
    """`out_dir.join(module).set_extension("pn.ll")`: the last extension of the
    file name, if any, is replaced."""
    d, base = os.path.split(module)
    if "." in base.lstrip("."):
        base = base.rsplit(".", 1)[0]
    return os.path.normpath(os.path.join(d, base + ".pn.ll"))


def argv_of(sc):
    sub = {"build": ["build"], "build_default": [], "run": ["run"], "emit": ["emit"]}[sc["sub"]]
    return [PENNE] + sub + sc["opts"] + sc["inputs"]


def expected_output_path(sc):
    if sc.get("dash_o"):
        return sc["dash_o"]
    first = os.path.basename(sc["inputs"][0])
    base = first.rsplit(".", 1)[0] if "." in first.lstrip(".") else first
    name = base + (".wasm" if sc["wasm"] else "." + ARCH)
    return os.path.join(sc["out_dir"], name) if sc["out_dir"] else name


# ---------------------------------------------------------------- running --
def exec_scenario(sc, wd, plan=None, keep=False, real_lli=False, restart=False, real_clang=False, second=False, hold=None):
    if second:
        # a second invocation in a directory where the first is still at work: nothing is set up or cleaned
        pass
    elif restart:
        # a restart after a crash: the directory is left exactly as the dead
        # process left it (only the simulator's own files are reset)
        for junk in ("trace.txt", "marker"):
            try:
                os.remove(os.path.join(wd, junk))
            except OSError:
                pass
        shutil.rmtree(os.path.join(wd, "bin"), ignore_errors=True)
    else:
        fresh_dir(wd)
        write_files(wd, sc["files"])
        for d in sc["pre_dirs"]:
            os.makedirs(os.path.join(wd, d), exist_ok=True)
        if sc.get("pre_files") and not sc.get("_no_pre_files"):
            write_files(wd, sc["pre_files"])
        for link, target in sc.get("pre_symlinks", {}).items():
            p = os.path.join(wd, link)
            os.makedirs(os.path.dirname(p), exist_ok=True)
            os.symlink(target, p)
    feeders = []
    if not restart:
        for rel in sc.get("fifos", []):
            # the same bytes, delivered through a named pipe (its reported size is 0)
            import detsim
            feeders.append(detsim.FifoFeeder(os.path.join(wd, rel), sc["files"][rel]))
    bindir = os.path.join(wd, "bin")
    os.makedirs(bindir, exist_ok=second)
    for name in sorted(set(sc["stubs"])) if not second else []:
        if real_lli and name == "lli":
            os.symlink("/usr/bin/lli", os.path.join(bindir, name))
        elif real_clang and name == "clang":
            os.symlink("/usr/bin/clang", os.path.join(bindir, name))
        else:
            shutil.copy(STUB, os.path.join(bindir, name))
    script = dict(sc["script"])
    order = sc["order"]
    if order == "parent_first" and script.get("read") != "all":
        script["wait"] = "hup"
    elif order == "parent_first":
        script["wait"] = "in"
    # every run owns its temporary directory: runs of different workers must not be
    # able to meet in /tmp (only the overlap job shares one, on purpose)
    os.makedirs(os.path.join(wd, ".tmp"), exist_ok=True)
    env = {"PATH": bindir + ":" + SYSTEM_PATH, "TMPDIR": os.path.join(wd, ".tmp")}
    env.update(sc["env"])
    env["VERIF_STUB_SCRIPT"] = ",".join("%s=%s" % (k, v) for k, v in sorted(script.items()))
    env["VERIF_STUB_MARKER"] = os.path.join(wd, "marker" + ("-second" if second else ""))
    trace_path = os.path.join(wd, "trace-second.txt" if second else "trace.txt")
    env = sim_env(env, entropy=sc.get("entropy", 1), plan=plan, order="child_first" if order == "child_first" else None,
                  trace=trace_path, clock=(10**12, 1000), pid=sc.get("sim_pid", 4242) + (1 if second else 0), hold=hold)
    stdout_kind = sc.get("stdout_kind", "pipe")
    argv = [a.replace("{WD}", wd) for a in argv_of(sc)]     # absolute input paths are written {WD}/... in scenarios
    cwd = os.path.join(wd, sc["cwd"]) if sc.get("cwd") else wd      # (the tool may be started in a sub-directory)
    try:
        if stdout_kind == "pipe":
            r = run_proc(argv, cwd, env)
        else:
            # real-OS reporting faults: stdout is /dev/full (every write ENOSPC) or closed
            r = run_proc(argv, cwd, env, stdout_kind=stdout_kind)
    finally:
        for f in feeders:
            f.stop()
    trace = read_trace(trace_path)
    obs = {"status": r.status(), "rc": r.rc, "sig": r.sig, "timeout": r.timeout, "out": r.out, "err": r.err, "trace": trace,
           "artefacts": {}, "marker": [], "stdin": {}, "wd": wd}
    if sc["out_dir"]:
        od = os.path.join(cwd, sc["out_dir"])
        if os.path.isdir(od):
            for dp, _d, names in sorted(os.walk(od)):
                for n in sorted(names):
                    p = os.path.join(dp, n)
                    if not n.endswith(".ll") or os.path.relpath(dp, od).split(os.sep)[0] == "bin":
                        continue    # artefacts only (the out-dir may be the run directory itself)
                    if os.path.islink(p) or not os.path.isfile(p):
                        obs["artefacts"][os.path.relpath(p, od)] = b"<not a regular file>"
                        continue
                    with open(p, "rb") as f:
                        obs["artefacts"][os.path.relpath(p, od)] = f.read(8 << 20)
    try:
        with open(os.path.join(wd, "marker")) as f:
            for line in f.read().splitlines():
                rec = dict(kv.split("=", 1) for kv in line.split(" ") if "=" in kv)
                args = bytes.fromhex(rec.get("argv", "")).split(b"\x00")[:-1]
                rec["args"] = [os.fsdecode(a) for a in args]
                obs["marker"].append(rec)
                sp = os.path.join(wd, "marker.stdin." + rec["id"])
                if os.path.exists(sp):
                    with open(sp, "rb") as f2:
                        obs["stdin"][rec["id"]] = f2.read()
    except OSError:
        pass
    if not keep and not second:
        shutil.rmtree(wd, ignore_errors=True)
    return obs


def trace_sha(trace):
    """Hash of a syscall trace. Sizes of stderr writes are left out: when penne
    itself panics, the Rust runtime prints the OS thread id, whose number of
    digits is the one thing in a run the simulator does not own."""
    return sha("\n".join(l for l in trace if not l.startswith("T err ")))


TID = re.compile(rb"thread '[^']*' \(\d+\)")      # a panic message of the Rust runtime names the OS thread id
TRACE_LINE = re.compile(r"^T (\w+) (\d+) ?(.*?) ?= (.*)$")


def parse_trace(trace):
    """-> list of dict(cls, idx, detail, result, failed, injected)"""
    calls = []
    fired = []
    for line in trace:
        if line.startswith("F "):
            p = line.split()
            fired.append({"cls": p[1], "idx": int(p[2]), "action": p[3], "arg": int(p[4])})
            continue
        m = TRACE_LINE.match(line)
        if not m:
            continue
        cls, idx, detail, result = m.group(1), int(m.group(2)), m.group(3), m.group(4)
        failed = result.startswith("-") and result != "-EINTR"
        if cls == "open":
            failed = failed or (result != "ok" and result != "-EINTR")
        if cls == "spawn":
            failed = result != "0"
        if cls == "mkdir":
            # natural ENOENT / EEXIST are the two results create_dir_all expects
            failed = failed or result not in ("ok", "File exists", "No such file or directory")
        calls.append({"cls": cls, "idx": idx, "detail": detail, "result": result, "failed": failed})
    return calls, fired


def sites_of(calls):
    """Call sites of a census run, with the fault classes that apply."""
    sites = []
    seen = set()
    for c in calls:
        key = (c["cls"], c["idx"])
        if key in seen:
            continue
        seen.add(key)
        cls = c["cls"]
        if cls == "open":
            mode = c["detail"].rsplit(" ", 1)[-1]
            sites.append({"cls": "open", "idx": c["idx"], "kind": "open_" + mode, "detail": c["detail"], "census": c["result"]})
        elif cls in ("read", "fwrite", "pwrite", "out", "err"):
            size = int(c["detail"]) if c["detail"].isdigit() else 0
            sites.append({"cls": cls, "idx": c["idx"], "kind": cls, "size": size, "census": c["result"]})
        elif cls in ("mkdir", "pipe", "spawn", "wait"):
            sites.append({"cls": cls, "idx": c["idx"], "kind": cls, "detail": c["detail"], "census": c["result"]})
    return sites


def faults_for(site):
    """All single faults applicable to a call site: (plan_entries, fault_kind, benign)"""
    out = []
    cls, idx, kind = site["cls"], site["idx"], site["kind"]
    p = "%s:%d:" % (cls, idx)
    if kind in ("open_r", "open_w", "read", "fwrite", "pwrite", "wait", "out", "err"):
        out.append(([p + "eintr:1"], "eintr", True))
        if kind != "wait":
            out.append(([p + "eintr:3"], "eintr3", True))
    if kind in ("read", "fwrite", "pwrite", "out", "err") and site.get("size", 0) >= 2:
        out.append(([p + "short:1"], "short", True))
        if site["size"] >= 4:
            out.append(([p + "short:%d" % (site["size"] // 2)], "short", True))
    if kind == "mkdir" and site.get("census") == "File exists":
        return out
    for e in HARD_ERRNOS.get(kind, []):
        out.append(([p + "errno:%d" % e], "errno_%s" % errno.errorcode.get(e, e), False))
    if kind == "fwrite" and site.get("size", 0) >= 2:
        out.append(([p + "short:1", "%s:%d:errno:%d" % (cls, idx + 1, E.ENOSPC)], "torn_write", False))
    return out


# ------------------------------------------------------------------ model --
def model_expect_zero(sc, calls):
    """Reference model: exit status 0 iff everything the run needed worked."""
    if not sc["config_ok"] or not sc["inputs_ok"] or not sc["compile_ok"]:
        return False, "bad_input"
    # (a failed write into the backend's stdin is not among them: a pipe write fails only because the
    # backend stopped reading, and whether that is a failure is for the backend's exit status to say)
    required_failed = [c for c in calls if c["failed"] and c["cls"] in ("open", "read", "fwrite", "pipe", "spawn")]
    if required_failed:
        return False, "io_failed:%s" % required_failed[0]["cls"]
    for c in calls:
        if c["cls"] == "mkdir" and c["failed"] and c.get("creating"):
            return False, "io_failed:mkdir"
    if sc["sub"] == "emit":
        return True, "emit_ok"
    waits = [c for c in calls if c["cls"] == "wait" and c["result"] != "-EINTR"]
    if not waits:
        # nothing failed, yet no backend was waited for: a faithful tool would
        # have run it; success is what the model expects (S5 then demands the
        # marker), so both "exit 0 without a backend" and "failure for no
        # reason" are flagged
        return True, "backend_never_ran"
    res = waits[-1]["result"]
    if sc["sub"] == "run":
        return (res.startswith("exit "), "backend:" + res)
    return (res == "exit 0", "backend:" + res)


def run_census(sc, wd):
    """Fault-free run of a scenario. When the out-dir is pre-populated, the
    artefacts a successful run must leave are taken from a twin run into a
    fresh out-dir."""
    if sc.get("compile_ok") is None:
        # inputs whose verdict is not known by construction (the diagnostic zoo):
        # the verdict of a plain `emit --silent` of the same files is the reference
        probe = dict(sc)
        probe.update({"sub": "emit", "opts": ["--silent"], "out_dir": None, "stubs": [], "env": {}, "pre_files": {}, "pre_dirs": [],
                      "compile_ok": True})
        r = exec_scenario(probe, wd + "-verdict")
        sc["compile_ok"] = r["rc"] == 0 and not r["sig"]
    census = exec_scenario(sc, wd)
    census["artefacts_ref"] = census["artefacts"]
    if sc.get("pre_files"):
        twin = dict(sc)
        twin["_no_pre_files"] = True
        ref = exec_scenario(twin, wd + "-fresh")
        census["artefacts_ref"] = ref["artefacts"]
    return census


def judge(sc, obs, census, plan_kind, benign, self_census=False):
    """-> list of (class, detail)"""
    viol = []
    calls, fired = parse_trace(obs["trace"])
    if obs["timeout"]:
        return [("hang", "no exit within %ds" % TIMEOUT_S)], calls, fired
    # std::fs::create_dir_all tolerates exactly two mkdir results: ENOENT (it
    # creates the parent first) and EEXIST on a directory. Both show up in the
    # trace as natural results; an injected errno is always fatal. (Faults are
    # not injected at sites whose real result is EEXIST: no OS reports EACCES
    # or ENOSPC for a directory that already exists.)
    for c in calls:
        if c["cls"] == "mkdir":
            c["creating"] = True
    # (a tool told to be --silent has nothing to write to stdout: an unwritable stdout is then no excuse)
    natural_out = sc.get("stdout_kind", "pipe") in ("devfull", "closed")
    stdio_failed = any(c["failed"] and c["cls"] == "err" for c in calls) or \
        (any(c["failed"] and c["cls"] == "out" for c in calls) and not (natural_out and sc["silent"])) or \
        (natural_out and not sc["silent"])
    expect_zero, why = model_expect_zero(sc, calls)
    rc = obs["rc"]
    ok_exit = rc == 0 and not obs["sig"]
    crashed = bool(obs["sig"]) or rc not in (0, 1, 2, 101)
    if crashed and not stdio_failed:
        viol.append(("cli_crash", "penne died with %s (%s)" % (obs["status"], why)))
    if rc == 2 and b"Usage:" in obs["err"]:
        viol.append(("unexpected_usage_error", "a valid command line was rejected: %s" % obs["err"].decode(errors="replace")[:300]))
    if rc == 101 and not stdio_failed and not sc.get("may_panic"):
        viol.append(("cli_panic", "penne panicked: %s" % obs["err"].decode(errors="replace")[-300:]))
    if not stdio_failed:
        if expect_zero and not ok_exit and not (sc.get("may_refuse") and rc == 1 and obs["err"].strip()):
            viol.append(("false_failure", "model expects success (%s) but exit is %s: %s" % (why, obs["status"], obs["err"].decode(errors="replace")[-300:])))
        if not expect_zero and ok_exit:
            viol.append(("silent_failure", "exit 0 although %s" % why))
    elif ok_exit and not expect_zero:
        viol.append(("silent_failure", "exit 0 although %s (with a failing stdout/stderr)" % why))
    # S2: exit 0 => complete artefacts / faithful pass-through
    if ok_exit:
        if sc["out_dir"] and sc["compile_ok"] and sc["inputs_ok"]:
            for m in sc["modules"]:
                rel = artefact_rel(m)
                data = obs["artefacts"].get(rel)
                if sc.get("locate_by_module_id"):
                    # where exactly below the out-dir is not prescribed for such inputs:
                    # any artefact there that carries this module's IR will do
                    mid = b"; ModuleID = '%s'" % os.fsencode(m.replace("{WD}", obs.get("wd", ""))).decode("utf-8", "replace").encode()
                    hits = [k for k, v in sorted(obs["artefacts"].items()) if v.startswith(mid + b"\n")]
                    if not hits:
                        viol.append(("artefact_missing", "exit 0 but no artefact below %s carries the IR of %s (artefacts: %s)" %
                                     (sc["out_dir"], m, sorted(k.replace(obs.get("wd", "\0").lstrip("/"), "{WD}") for k in obs["artefacts"]))))
                    continue
                if data is None:
                    viol.append(("artefact_missing", "exit 0 but %s/%s does not exist" % (sc["out_dir"], rel)))
                elif census is not None and census["rc"] == 0 and data != census.get("artefacts_ref", census["artefacts"]).get(rel):
                    viol.append(("artefact_corrupt", "exit 0 but %s differs from the fault-free run into a fresh directory (%d vs %d bytes)" %
                                 (rel, len(data), len(census.get("artefacts_ref", census["artefacts"]).get(rel, b"")))))
                elif not data.startswith(b"; ModuleID = '%s'" % os.fsencode(m).decode("utf-8", "replace").encode()):
                    viol.append(("artefact_corrupt", "%s does not start with its ModuleID line" % rel))
                else:
                    # the module's IR is IR for the target that was asked for: pointer width and triple agree
                    tm = re.search(rb'^target triple = "([^"]*)"', data, re.M)
                    lm = re.search(rb'^target datalayout = "([^"]*)"', data, re.M)
                    if tm and lm and (b"p:32:32" in lm.group(1)) != tm.group(1).startswith(b"wasm32"):
                        viol.append(("artefact_for_another_target", "%s: data layout %s with target triple %s" % (rel, lm.group(1).decode(), tm.group(1).decode())))
                    elif tm and bool(sc["wasm"]) != tm.group(1).startswith(b"wasm32"):
                        viol.append(("artefact_for_another_target", "%s: --wasm is %s but the target triple is %s" % (rel, bool(sc["wasm"]), tm.group(1).decode())))
        if sc["sub"] != "emit":
            recs = [m for m in obs["marker"]]
            if len(recs) != 1 or recs[0]["id"] != sc["backend_id"]:
                viol.append(("wrong_backend", "expected exactly one run of %s, marker shows %s" % (sc["backend_id"], [m["id"] for m in recs])))
            else:
                rec = recs[0]
                if sc["sub"] == "run":
                    want = sc["backend_args"] + ["-"]
                else:
                    want = sc["backend_args"] + ["-Wl," + a for a in sc["link_args"]] + ["-x", "ir", "-", "-o", expected_output_path(sc)]
                if rec["args"] != want:
                    viol.append(("wrong_backend_args", "backend got %s, expected %s" % (rec["args"], want)))
                if census is not None and census["rc"] == 0 and sc["script"].get("read", "all") == "all":
                    cin = census["stdin"].get(sc["backend_id"])
                    got = obs["stdin"].get(sc["backend_id"])
                    if cin is not None and got != cin:
                        viol.append(("ir_truncated", "backend received %d bytes of IR, fault-free run %d" % (len(got or b""), len(cin))))
                if sc["sub"] == "run" and not sc["silent"] and not stdio_failed:
                    code = None
                    for c in calls:
                        if c["cls"] == "wait" and c["result"].startswith("exit "):
                            code = int(c["result"][5:])
                    out = obs["out"]
                    tail = b"Output: %d\n" % code if code is not None else b""
                    plain = re.sub(rb"\x1b\[[0-9;]*m", b"", out)
                    if code is None or (tail + b"Done.\n") not in plain:
                        viol.append(("exit_status_not_shown", "stdout does not end with `Output: %s`: %r" % (code, plain[-80:])))
                    prog = bytes.fromhex(sc["script"].get("out", ""))
                    if prog and prog not in out:
                        viol.append(("output_not_passed_through", "program wrote %r; not found on penne's stdout" % prog))
    # S5: no backend for emit / after failed compilation
    if (sc["sub"] == "emit" or not sc["compile_ok"] or not sc["inputs_ok"] or not sc["config_ok"]) and obs["marker"]:
        viol.append(("backend_ran_unexpectedly", "marker shows %s" % [m["id"] for m in obs["marker"]]))
    if sc["sub"] != "emit" and len(obs["marker"]) > 1:
        viol.append(("backend_ran_twice", "marker shows %s" % [m["id"] for m in obs["marker"]]))
    # S4: diagnostics for failing compilations
    io_failed = any(c["failed"] for c in calls if c["cls"] in ("open", "read", "fwrite", "mkdir", "pwrite", "pipe", "spawn"))
    if not sc["compile_ok"] and sc["inputs_ok"] and sc["config_ok"] and not stdio_failed and not io_failed:
        codes = CODE.findall(obs["err"])
        if not sc["silent"] and not codes and rc == 1:
            viol.append(("no_diagnostic", "compilation failed without a rendered diagnostic on stderr: %r" % obs["err"][-200:]))
        if sc["silent"] and (obs["out"].strip() or codes):
            viol.append(("silent_not_silent", "--silent but output: %r %r" % (obs["out"][:80], obs["err"][:80])))
    if sc["color"] == "never" and (ESC in obs["out"] or ESC in obs["err"]):
        viol.append(("color_never_has_escape", "ESC byte in output with --color=never"))
    if sc["arrows"] == "ascii" and sc["color"] == "never" and not sc["verbose"]:
        text = obs["err"].decode(errors="replace")
        src = set()
        for data in sc["files"].values():
            src |= set(data.decode(errors="replace"))
        bad = sorted(c for c in set(text) if c in BOX and c not in src)
        if bad:
            viol.append(("ascii_arrows_has_box_chars", repr(bad)))
    # S1: benign faults are absorbed: indistinguishable from the fault-free run
    if benign and census is not None and fired:
        same = (obs["status"] == census["status"] and obs["out"] == census["out"] and TID.sub(b"thread", obs["err"]) == TID.sub(b"thread", census["err"])
                and obs["artefacts"] == census["artefacts"] and [(m["id"], m["args"], m.get("stdin_fnv")) for m in obs["marker"]] ==
                [(m["id"], m["args"], m.get("stdin_fnv")) for m in census["marker"]])
        if not same:
            what = []
            if obs["status"] != census["status"]:
                what.append("status %s vs %s" % (obs["status"], census["status"]))
            if obs["out"] != census["out"]:
                what.append("stdout differs")
            if TID.sub(b"thread", obs["err"]) != TID.sub(b"thread", census["err"]):
                what.append("stderr differs: %r" % obs["err"][-200:])
            if obs["artefacts"] != census["artefacts"]:
                what.append("artefacts differ")
            viol.append(("benign_fault_not_absorbed", "%s (%s): %s" % (plan_kind, [f["cls"] + ":" + str(f["idx"]) for f in fired], "; ".join(what) or "backend record differs")))
    seen = {}
    for c, d in viol:
        seen.setdefault(c, d)
    return list(seen.items()), calls, fired


# ------------------------------------------------------------- enumeration --
FIXED = [
    ("emit", "valid_multi", {"out_dir": "fresh", "silent": False, "verbose": False}),
    ("run", "valid_multi", {"out_dir": "nested", "silent": False, "verbose": False, "script": {"read": "all", "exit": 7, "out": b"hi\n".hex()}, "order": "parent_first"}),
    ("build", "valid_single", {"out_dir": "fresh", "silent": False, "verbose": False, "config": "valid", "script": {"read": "all", "exit": 0}, "order": "parent_first"}),
    ("emit", "invalid_multi", {"out_dir": "fresh", "silent": False}),
    ("run", "valid_single", {"out_dir": "absent", "silent": True, "script": {"read": "all", "exit": 0}, "order": "child_first"}),
    ("build_default", "valid_multi", {"out_dir": "existing", "verbose": True, "silent": False, "script": {"read": "all", "exit": 1}, "order": "parent_first"}),
    ("emit", "with_core", {"out_dir": "nested"}),
    ("run", "valid_single", {"out_dir": "fresh", "script": {"read": "none", "exit": 0}, "order": "child_first"}),
    ("run", "valid_single", {"out_dir": "fresh", "script": {"read": "all", "signal": 11}, "order": "parent_first"}),
    ("build", "missing_file", {"out_dir": "fresh"}),
    ("emit", "valid_single", {"out_dir": "existing", "wasm": True}),
    ("build", "valid_multi", {"out_dir": "absent", "config": "malformed"}),
    ("emit", "valid_large", {"out_dir": "fresh", "verbose": True, "silent": False}),
    ("emit", "valid_with_lints", {"out_dir": "fresh", "color": "never", "arrows": "ascii", "silent": False, "verbose": False}),
    ("run", "zoo_invalid", {"out_dir": "absent", "color": "never", "arrows": "ascii", "silent": False, "verbose": False}),
    ("build", "valid_single", {"out_dir": "absent", "cell": (0, 1, 0), "empty_env": True, "config": "none"}),
]


def enum_scenario(seed, k):
    rng = rng_for(seed, TAG_SC, k)
    if k < len(FIXED):
        sub, kind, force = FIXED[k]
    else:
        sub = ["build", "build_default", "run", "emit"][k % 4]
        kind = INPUT_KINDS[(k // 4) % len(INPUT_KINDS)]
        force = {"out_dir": ["fresh", "existing", "nested", "absent"][(k // 40) % 4] if sub != "emit" or (k // 40) % 4 != 3 else "fresh"}
    sc = make_scenario(rng, sub, kind, force)
    sc["entropy"] = rng.getrandbits(64)
    sc["name"] = "enum%d:%s:%s" % (k, sub, kind)
    return sc


def _enum_job(args):
    seed, k, tier = args
    cfg = TIERS[tier]
    sc = enum_scenario(seed, k)
    root = os.path.join(work_root(), "C18", "e%d" % k)
    census = run_census(sc, os.path.join(root, "census"))
    res = {"k": k, "name": sc["name"], "runs": 1, "violations": [], "fired": {}, "configured": {}, "sites": 0,
           "triples": set(), "trace_hashes": {trace_sha(census["trace"])}, "branches": set(), "calls": len(census["trace"])}
    v, calls, _ = judge(sc, census, census, "census", None)
    res["branches"].add(model_expect_zero(sc, calls)[1])
    for cls, d in v:
        res["violations"].append({"class": cls, "detail": d, "scenario": sc_json(sc), "plan": [], "fault": "none"})
    sites = sites_of(calls)
    rng = rng_for(seed, TAG_SC + "/stdio", k)
    stdio = [s for s in sites if s["cls"] in ("out", "err")]
    others = [s for s in sites if s["cls"] not in ("out", "err")]
    if len(stdio) > cfg["stdio_sites"]:
        keep = [stdio[0], stdio[-1]] + rng.sample(stdio[1:-1], cfg["stdio_sites"] - 2)
        stdio = sorted(keep, key=lambda s: (s["cls"], s["idx"]))
    res["sites"] = len(others) + len(stdio)
    res["stdio_sites_total"] = len([s for s in sites if s["cls"] in ("out", "err")])
    res["exhaustive_non_stdio"] = True
    n = 0
    for site in others + stdio:
        for plan, fk, benign in faults_for(site):
            n += 1
            obs = exec_scenario(sc, os.path.join(root, "f%d" % n), plan=plan)
            res["runs"] += 1
            res["configured"][fk] = res["configured"].get(fk, 0) + 1
            v, calls, fired = judge(sc, obs, census, fk, benign)
            if fired:
                res["fired"][fk] = res["fired"].get(fk, 0) + 1
                res["triples"].add((sc["sub"] + "/" + sc["input_kind"], site["kind"], fk))
            res["trace_hashes"].add(trace_sha(obs["trace"]))
            res["branches"].add(model_expect_zero(sc, calls)[1] if not obs["timeout"] else "hang")
            for cls, d in v:
                res["violations"].append({"class": cls, "detail": d, "scenario": sc_json(sc), "plan": plan, "fault": fk,
                                          "site": "%s:%d" % (site["cls"], site["idx"])})
    shutil.rmtree(root, ignore_errors=True)
    res["triples"] = sorted(res["triples"])
    res["trace_hashes"] = sorted(res["trace_hashes"])
    res["branches"] = sorted(res["branches"])
    return res


def sc_json(sc):
    d = dict(sc)
    d["files"] = {k: v.decode("utf-8", errors="surrogateescape") for k, v in sc["files"].items()}
    d["pre_files"] = {k: v.decode("utf-8", errors="surrogateescape") for k, v in sc.get("pre_files", {}).items()}
    d.pop("_no_pre_files", None)
    return d


def sc_from_json(d):
    sc = dict(d)
    sc["files"] = {k: v.encode("utf-8", errors="surrogateescape") for k, v in d["files"].items()}
    sc["pre_files"] = {k: v.encode("utf-8", errors="surrogateescape") for k, v in d.get("pre_files", {}).items()}
    return sc


# -------------------------------------------------- backend resolution grid --
def _grid_job(args):
    seed, idx = args
    cells = []
    for sub in ("build", "build_default"):
        for f in (0, 1):
            for e in (0, 1):
                for c in (0, 1):
                    cells.append((sub, (f, e, c)))
    for f in (0, 1):
        for e in (0, 1):
            cells.append(("run", (f, e, 0)))
    sub, cell = cells[idx]
    rng = rng_for(seed, "C18/grid", idx)
    sc = make_scenario(rng, sub, "valid_single", {"cell": cell, "silent": False, "verbose": False, "script": {"read": "all", "exit": 0},
                                                  "order": "parent_first", "config": "valid" if cell[2] else "none", "out_dir": "absent"})
    sc["name"] = "grid:%s:%s" % (sub, cell)
    wd = os.path.join(work_root(), "C18", "g%d" % idx)
    obs = run_census(sc, wd)
    v, calls, _ = judge(sc, obs, obs, "grid", None)
    return {"cell": [sub, list(cell)], "backend": sc["backend_id"], "violations": [
        {"class": c, "detail": d, "scenario": sc_json(sc), "plan": [], "fault": "none"} for c, d in v], "n_cells": len(cells)}


N_GRID = 20

SCRIPTS = [{"read": "all", "exit": 0}, {"read": "all", "exit": 3}, {"read": "all", "exit": 255}, {"read": "all", "signal": 6},
           {"read": "all", "signal": 9}, {"read": "all", "signal": 11}, {"read": "none", "exit": 0}, {"read": "none", "exit": 1},
           {"read": "10", "exit": 0}, {"read": "all", "exit": 0, "out": b"out\n".hex(), "err": b"err\n".hex()}]


def script_grid():
    cells = []
    for sub in ("run", "build"):
        for silent in (False, True):
            for si in range(len(SCRIPTS)):
                for order in ("parent_first", "child_first"):
                    if order == "child_first" and SCRIPTS[si].get("read") != "none":
                        continue
                    cells.append((sub, silent, si, order))
    return cells


FS_VARIANTS = ["artefact_is_directory", "artefact_symlink_to_devfull", "out_dir_through_regular_file", "source_is_directory",
               "source_symlink_loop", "stdout_devfull", "stdout_closed", "config_is_directory",
               "silent_stdout_devfull", "silent_verbose_stdout_devfull", "silent_stdout_closed",
               "absolute_input", "colliding_artefact_names", "env_backend_not_utf8", "source_is_fifo", "config_is_fifo",
               "dotdot_input_collides"]


def _fs_variant_job(args):
    """Failures produced by the real file system instead of the shim (cross-check
    of the shim, and of penne against natural errno values)."""
    seed, idx = args
    variant = FS_VARIANTS[idx % len(FS_VARIANTS)]
    sub = ["emit", "run", "build"][(idx // len(FS_VARIANTS)) % 3]
    rng = rng_for(seed, "C18/fs", idx)
    force = {"cell": (0, 0, 0), "silent": False, "verbose": False, "script": {"read": "all", "exit": 0}, "order": "parent_first",
             "config": "none", "out_dir": "fresh", "wasm": False}
    if variant in ("config_is_directory", "config_is_fifo"):
        sub = "build"
    if variant.startswith("silent_"):
        force["silent"] = True
        force["silent_and_verbose"] = "verbose" in variant
    sc = make_scenario(rng, sub, "valid_single" if variant == "absolute_input" else "valid_multi", force)
    sc["name"] = "fs:%s:%s" % (variant, sub)
    first = artefact_rel(sc["modules"][0])
    expect_fail = True
    if variant == "artefact_is_directory":
        sc["pre_dirs"].append(os.path.join("out", first))
    elif variant == "artefact_symlink_to_devfull":
        sc["pre_symlinks"] = {os.path.join("out", first): "/dev/full"}
    elif variant == "out_dir_through_regular_file":
        sc["pre_files"] = {}
        sc["files"]["blocker"] = b"not a directory\n"
        i = sc["opts"].index("--out-dir")
        sc["opts"][i + 1] = "blocker/out"
        sc["out_dir"] = "blocker/out"
    elif variant == "source_is_directory":
        sc["pre_dirs"].append("extra_dir.pn")
        sc["inputs"] = sc["inputs"] + ["extra_dir.pn"]
        sc["inputs_ok"] = False
    elif variant == "source_symlink_loop":
        sc["pre_symlinks"] = {"loop.pn": "loop.pn"}
        sc["inputs"] = sc["inputs"] + ["loop.pn"]
        sc["inputs_ok"] = False
    elif variant == "stdout_devfull":
        sc["stdout_kind"] = "devfull"
        expect_fail = None
    elif variant == "stdout_closed":
        sc["stdout_kind"] = "closed"
        expect_fail = None
    elif variant == "config_is_directory":
        sc["pre_dirs"].append("penne.toml")
        sc["opts"] += ["--config", "penne.toml"]
        sc["config_ok"] = False
    elif variant == "absolute_input":
        # the sources are named by absolute paths: the artefacts still belong below the out-dir
        sc["inputs"] = ["{WD}/" + n for n in sc["inputs"]]
        sc["modules"] = ["{WD}/" + n for n in sc["modules"]]
        sc["locate_by_module_id"] = True
        expect_fail = False
    elif variant == "colliding_artefact_names":
        # two sources whose artefact names coincide (`x.pn`, `x.txt`): both artefacts, or a failure
        # that says so - never success with one module's IR lost
        prog = pngen.generate(rng, n_funcs=3)
        sc["files"] = {"x.pn": prog.single_file().encode(), "x.txt": pngen.extra_module(rng).encode()}
        sc["inputs"] = ["x.pn", "x.txt"] if idx % 2 else ["x.txt", "x.pn"]
        sc["modules"] = list(sc["inputs"])
        sc["locate_by_module_id"] = True
        sc["may_refuse"] = True     # a refusal (exit 1 with a message) is as faithful as two artefacts
        expect_fail = None
    elif variant == "dotdot_input_collides":
        # started in app/: `../lib/util.pn` and `lib/util.pn` are two files with one place below the out-dir
        a = pngen.generate(rng, n_funcs=2)
        sc["files"] = {"app/main.pn": a.single_file().encode(), "lib/util.pn": pngen.extra_module(rng, prefix="p").encode(),
                       "app/lib/util.pn": pngen.extra_module(rng, prefix="q").encode()}
        sc["cwd"] = "app"
        sc["inputs"] = ["main.pn", "../lib/util.pn", "lib/util.pn"] if idx % 2 else ["main.pn", "lib/util.pn", "../lib/util.pn"]
        sc["modules"] = list(sc["inputs"])
        sc["locate_by_module_id"] = True
        sc["may_refuse"] = True
        expect_fail = None
    elif variant == "source_is_fifo":
        # a source that arrives through a named pipe is the same source
        sc["fifos"] = [sc["inputs"][-1]]
        expect_fail = False
    elif variant == "config_is_fifo":
        # a config file that arrives through a named pipe still names the backend
        sc["files"]["penne.toml"] = b'backend = "cfgbe"\n'
        sc["opts"] += ["--config", "penne.toml"]
        sc["fifos"] = ["penne.toml"]
        sc["stubs"] = sorted(set(sc["stubs"]) | {"cfgbe"})
        sc["backend_id"] = "cfgbe"
        expect_fail = False
    elif variant == "env_backend_not_utf8":
        # the environment names a backend whose name is not valid UTF-8: run that one, or fail - never another one
        if sub != "emit":
            name = "caf\udce9be"
            sc["env"]["PENNE_LLI" if sub == "run" else "PENNE_BACKEND"] = name
            sc["stubs"] = sorted(set(sc["stubs"]) | {name})
            sc["backend_id"] = name
            sc["may_refuse"] = True
        expect_fail = None
    elif variant.startswith("silent_"):
        # nothing is written to stdout under --silent, so an unwritable stdout
        # changes nothing: success, complete artefacts, the backend ran
        sc["stdout_kind"] = "closed" if variant.endswith("closed") else "devfull"
        expect_fail = False
    wd = os.path.join(work_root(), "C18", "v%d" % idx)
    obs = exec_scenario(sc, wd)
    obs["artefacts_ref"] = obs["artefacts"]
    if variant.startswith("silent_"):
        twin = dict(sc)
        twin["stdout_kind"] = "pipe"
        obs["artefacts_ref"] = exec_scenario(twin, wd + "-twin")["artefacts"]
    v, calls, _ = judge(sc, obs, obs if variant.startswith("silent_") else None, "fs_variant", None)
    viol = [{"class": c, "detail": d, "scenario": sc_json(sc), "plan": [], "fault": variant} for c, d in v]
    ok_exit = obs["rc"] == 0 and not obs["sig"]
    if expect_fail and ok_exit:
        viol.append({"class": "silent_failure", "detail": "exit 0 although %s (a failure produced by the real file system)" % variant,
                     "scenario": sc_json(sc), "plan": [], "fault": variant})
    return {"variant": variant, "sub": sub, "status": obs["status"], "violations": viol}


def _crash_restart_job(args):
    """Crash (SIGKILL) at an arbitrary intercepted call - for artefact writes
    after a prefix of the data reached the file - then restart the same command
    in the directory the dead process left behind. Only what is on disk
    survives; the restarted run must be judged like any fault-free run and must
    leave exactly the artefacts of a run into a fresh directory."""
    seed, i = args
    rng = rng_for(seed, "C18/crash", i)
    sub = rng.choice(["emit", "emit", "run", "build"])
    sc = make_scenario(rng, sub, rng.choice(["valid_multi", "valid_multi", "valid_single", "with_core"]),
                       {"out_dir": rng.choice(["fresh", "nested", "existing"]), "script": {"read": "all", "exit": 0}, "order": "parent_first",
                        "config": "none", "cell": (0, 0, 0)})
    sc["name"] = "crash%d:%s:%s" % (i, sc["sub"], sc["input_kind"])
    root = os.path.join(work_root(), "C18", "x%d" % i)
    census = run_census(sc, os.path.join(root, "census"))
    calls, _ = parse_trace(census["trace"])
    sites = [s_ for s_ in sites_of(calls) if s_["kind"] in ("fwrite", "open_w", "mkdir", "pwrite", "spawn", "wait", "out")]
    res = {"i": i, "runs": 2, "violations": [], "fired": {}, "configured": {}, "triples": set(), "trace_hashes": set(), "branches": set()}
    if not sites:
        shutil.rmtree(root, ignore_errors=True)
        res["triples"] = []
        res["trace_hashes"] = []
        res["branches"] = []
        return res
    weights = {"fwrite": 8, "open_w": 4, "mkdir": 3, "pwrite": 2, "spawn": 1, "wait": 1, "out": 1}
    pool = [s_ for s_ in sites for _ in range(weights.get(s_["kind"], 1))]
    site = rng.choice(pool)
    torn = rng.randrange(1, max(2, site.get("size", 2))) if site["kind"] in ("fwrite", "pwrite") and rng.random() < 0.8 else 0
    plan = ["%s:%d:crash:%d" % (site["cls"], site["idx"], torn)]
    res["configured"]["crash"] = 1
    wd = os.path.join(root, "run")
    dead = exec_scenario(sc, wd, plan=plan, keep=True)
    _c, fired = parse_trace(dead["trace"])
    if fired:
        res["fired"]["crash"] = 1
        res["triples"].add((sc["sub"] + "/" + sc["input_kind"], site["kind"], "crash_torn" if torn else "crash"))
        if dead["sig"] != 9:
            res["violations"].append({"class": "harness_crash_not_delivered", "detail": dead["status"], "scenario": sc_json(sc), "plan": plan, "fault": "crash"})
        again = exec_scenario(sc, wd, restart=True)
        res["runs"] += 1
        v, calls2, _ = judge(sc, again, census, "restart_after_crash", None)
        res["branches"].add("restart:" + model_expect_zero(sc, calls2)[1])
        res["trace_hashes"].add(trace_sha(dead["trace"]))
        for cls, d in v:
            res["violations"].append({"class": cls, "detail": "after a crash at %s (torn=%d) and a restart: %s" % (plan[0], torn, d),
                                      "scenario": sc_json(sc), "plan": plan, "fault": "crash_restart"})
    shutil.rmtree(root, ignore_errors=True)
    res["triples"] = sorted(res["triples"])
    res["trace_hashes"] = sorted(res["trace_hashes"])
    res["branches"] = sorted(res["branches"])
    return res


def _rerun_job(args):
    """The same command twice in the same directory (what a user does after
    looking at the output): the second run finds the artefacts, directories and
    executables of the first and must be judged like it - same status, same
    artefacts, the backend run again."""
    seed, i = args
    rng = rng_for(seed, "C18/rerun", i)
    sub = rng.choice(["emit", "emit", "run", "build"])
    sc = make_scenario(rng, sub, rng.choice(["valid_multi", "valid_single", "with_core", "with_core", "package_only"]),
                       {"out_dir": rng.choice(["dot", "dot", "fresh", "nested", "spaced", "absent"]), "script": {"read": "all", "exit": 0},
                        "order": "parent_first", "config": "none", "cell": (0, 0, 0), "wasm": False})
    sc["name"] = "rerun%d:%s:%s" % (i, sc["sub"], sc["input_kind"])
    root = os.path.join(work_root(), "C18", "w%d" % i)
    viol = [{"class": c, "detail": d, "scenario": sc_json(sc), "plan": [], "fault": "rerun"} for c, d in rerun_verdict(sc, root)]
    return {"violations": viol, "runs": 3}


def _same_dir_overlap_job(args):
    """Two invocations of one `emit --out-dir` command in one directory, under one
    fixed schedule: the first is parked right before one of its artefact writes
    (simulated OS, action `hold`), the second runs from start to finish, the
    first is let go. Both compile the same sources, so whatever the order of
    their writes, both succeed and the artefacts are those of a single run."""
    import threading
    seed, i = args
    rng = rng_for(seed, "C18/same_dir_overlap", i)
    sc = make_scenario(rng, "emit", rng.choice(["valid_multi", "valid_single", "valid_multi"]),
                       {"out_dir": rng.choice(["fresh", "nested", "existing"]), "silent": False, "verbose": False, "config": "none", "cell": (0, 0, 0), "wasm": False})
    sc["name"] = "same_dir_overlap%d" % i
    root = os.path.join(work_root(), "C18", "z%d" % i)
    shutil.rmtree(root, ignore_errors=True)
    census = run_census(sc, os.path.join(root, "census"))
    calls, _ = parse_trace(census["trace"])
    writes = [s_ for s_ in sites_of(calls) if s_["kind"] == "fwrite"]
    res = {"violations": [], "runs": 1, "held": False}
    if not writes or census["rc"] != 0:
        shutil.rmtree(root, ignore_errors=True)
        return res
    site = writes[rng.randrange(len(writes))]
    wd = os.path.join(root, "run")
    gate = os.path.join(root, "gate")
    os.mkfifo(gate)
    box = {}
    th = threading.Thread(target=lambda: box.update(obs=exec_scenario(sc, wd, plan=["fwrite:%d:hold:0" % site["idx"]], keep=True, hold=gate)), daemon=True)
    th.start()
    fd = None
    while th.is_alive() and fd is None:
        try:
            fd = os.open(gate, os.O_WRONLY | os.O_NONBLOCK)     # succeeds once the first invocation is parked at its write
        except OSError:
            time.sleep(0.001)
    res["held"] = fd is not None
    ob = exec_scenario(sc, wd, second=True) if fd is not None else None
    if fd is not None:
        os.write(fd, b"x")
        os.close(fd)
    th.join(timeout=TIMEOUT_S + 5)
    oa = box.get("obs")
    final = {}
    od = os.path.join(wd, sc["out_dir"])
    for dp, _d, names in sorted(os.walk(od)) if os.path.isdir(od) else []:
        for n in sorted(names):
            p = os.path.join(dp, n)
            if os.path.isfile(p) and not os.path.islink(p):
                with open(p, "rb") as f:
                    final[os.path.relpath(p, od)] = f.read(8 << 20)
    viol = []
    for tag, o in (("the invocation parked before its artefact write %d" % site["idx"], oa), ("the invocation that ran meanwhile", ob)):
        if o is None:
            if tag.startswith("the invocation parked") or fd is not None:
                viol.append(("overlap_hang", "%s did not finish" % tag))
        elif o["rc"] != 0 or o["sig"]:
            viol.append(("overlap_interference", "%s: %s although the same command alone succeeds: %r" % (tag, o["status"], o["err"][-200:])))
    if not viol and final != census["artefacts"]:
        diff = sorted(k for k in set(final) | set(census["artefacts"]) if final.get(k) != census["artefacts"].get(k))
        viol.append(("overlap_interference", "after two overlapping runs of one command the out-dir differs from a single run's: %s" % diff[:4]))
    shutil.rmtree(root, ignore_errors=True)
    res["runs"] = 3
    res["violations"] = [{"class": c_, "detail": d_, "scenario": sc_json(sc), "plan": [], "fault": "same_dir_overlap", "index": i, "seed": seed} for c_, d_ in viol]
    return res


def _stale_binary_job(args):
    """A build that succeeds and leaves its executable, then the same build with a
    backend that fails (exit code, signal) without touching the file: the second
    run is a failure, whatever is lying at the output path."""
    seed, i = args
    rng = rng_for(seed, "C18/stale_binary", i)
    sc = make_scenario(rng, "build", rng.choice(["valid_single", "valid_multi"]),
                       {"out_dir": rng.choice(["fresh", "absent", "nested"]), "script": {"read": "all", "exit": 0, "produce": 1},
                        "order": "parent_first", "config": "none", "cell": rng.choice([(0, 0, 0), (1, 0, 0), (0, 1, 0)]), "wasm": False, "silent": False, "verbose": False})
    sc["name"] = "stale_binary%d" % i
    root = os.path.join(work_root(), "C18", "y%d" % i)
    wd = os.path.join(root, "run")
    first = exec_scenario(sc, wd, keep=True)
    second = dict(sc)
    second["script"] = rng.choice([{"read": "all", "exit": 3}, {"read": "all", "signal": 9}, {"read": "10", "exit": 1}])
    again = exec_scenario(second, wd, restart=True)
    viol = []
    # (when the first build fails - a scenario with an empty PENNE_BACKEND, say - there is no
    # earlier executable and nothing to judge here; such runs are judged by the other jobs)
    if first["rc"] == 0 and not first["sig"] and again["rc"] == 0 and not again["sig"]:
        viol.append(("silent_failure", "exit 0 although the backend failed (%s); the executable of the earlier build is still lying there" % second["script"]))
    shutil.rmtree(root, ignore_errors=True)
    return {"violations": [{"class": c, "detail": d, "scenario": sc_json(sc), "plan": [], "fault": "stale_binary", "index": i, "seed": seed} for c, d in viol], "runs": 2}


def rerun_verdict(sc, root):
    census = run_census(sc, os.path.join(root, "census"))
    wd = os.path.join(root, "run")
    first = exec_scenario(sc, wd, keep=True)
    again = exec_scenario(sc, wd, restart=True)
    v, _calls, _ = judge(sc, again, census, "rerun", None)
    out = [(cls, "second run in the same directory: %s" % d) for cls, d in v]
    if not v and (again["status"], again["artefacts"]) != (first["status"], first["artefacts"]):
        out.append(("rerun_differs", "second run in the same directory: %s, first %s; artefacts %s" %
                    (again["status"], first["status"], "equal" if again["artefacts"] == first["artefacts"] else "differ")))
    shutil.rmtree(root, ignore_errors=True)
    return out


def _render_grid_job(args):
    """Failing compilations from the diagnostic zoo under --color=never /
    --arrows=ascii, for every subcommand: no ESC byte, no box-drawing character,
    non-zero exit, no backend."""
    seed, idx = args
    rng = rng_for(seed, "C18/render", idx)
    sub = ["emit", "run", "build"][idx % 3]
    import detsim
    n_ctx, n_expr = len(detsim.ZOO_CTX), len(detsim.ZOO_EXPR)
    ci = idx % n_ctx
    ei = ((idx // n_ctx) * 5 + ci) % n_expr          # every context, expressions five apart
    sc = make_scenario(rng, sub, "zoo_invalid", {"color": "never", "arrows": "ascii", "silent": False, "verbose": False, "cell": (0, 0, 0),
                                                 "zoo_index": ci * n_expr + ei,
                                                 "config": "valid" if sub == "build" and idx % 2 else "none", "cfg_stdout": True,
                                                 "out_dir": "absent", "script": {"read": "all", "exit": 0}, "order": "parent_first"})
    sc["name"] = "render%d:%s" % (idx, sub)
    if idx % 4 == 3:
        # stdout is a terminal with a capable TERM: --color=never must still mean no escape sequence
        sc["stdout_kind"] = "pty"
        sc["env"]["TERM"] = "xterm-256color"
        sc["name"] += ":pty"
    wd = os.path.join(work_root(), "C18", "n%d" % idx)
    obs = run_census(sc, wd)
    v, calls, _ = judge(sc, obs, obs, "render_grid", None)
    return {"violations": [{"class": c, "detail": d, "scenario": sc_json(sc), "plan": [], "fault": "none"} for c, d in v]}


def _verbose_large_job(args):
    """--verbose on programs whose dumps run to tens of kilobytes (rebuilt code
    with multi-byte indentation, token and IR dumps): same verdict and same
    artefacts as the plain run."""
    seed, idx = args
    rng = rng_for(seed, "C18/verbose_large", idx)
    sc = make_scenario(rng, "emit", "valid_large", {"verbose": True, "silent": False, "out_dir": "fresh", "wasm": False})
    sc["name"] = "verbose_large%d" % idx
    wd = os.path.join(work_root(), "C18", "b%d" % idx)
    obs = run_census(sc, wd)
    plain = dict(sc)
    plain["opts"] = [o for o in sc["opts"] if o != "--verbose"]
    plain["verbose"] = False
    ref = exec_scenario(plain, wd + "-plain")
    obs["artefacts_ref"] = ref["artefacts"]
    v, calls, _ = judge(sc, obs, obs, "verbose_large", None)
    return {"violations": [{"class": c, "detail": d, "scenario": sc_json(sc), "plan": [], "fault": "none"} for c, d in v]}


ERROR_COUNTS = [1, 2, 255, 256, 257, 511, 512, 768]


def _error_count_job(args):
    """A failing compilation with N diagnostics, N around the multiples of 256
    (an exit status is one byte): non-zero exit, no backend, for every
    subcommand, with and without --silent, in the only module or in the second."""
    seed, idx = args
    rng = rng_for(seed, "C18/error_count", idx)
    sub = ["emit", "run", "build"][idx % 3]
    n = ERROR_COUNTS[(idx // 3) % len(ERROR_COUNTS)]
    variant = idx // (3 * len(ERROR_COUNTS))
    sc = make_scenario(rng, sub, "many_errors", {"n_errors": n, "two_modules": variant % 2 == 1, "silent": variant // 2 % 2 == 1, "verbose": False,
                                                 "color": "never", "arrows": "ascii", "cell": (0, 0, 0), "config": "none",
                                                 "out_dir": "absent" if sub != "emit" else "fresh", "script": {"read": "all", "exit": 0}, "order": "parent_first"})
    sc["name"] = "error_count:%s:%d:%d" % (sub, n, variant)
    wd = os.path.join(work_root(), "C18", "ec%d" % idx)
    obs = run_census(sc, wd)
    v, calls, _ = judge(sc, obs, obs, "error_count", None)
    return {"violations": [{"class": c, "detail": d, "scenario": sc_json(sc), "plan": [], "fault": "none"} for c, d in v]}


def _blank_module_job(args):
    """Valid multi-file programs with one more module that has no declaration
    at all, at any place on the command line: success, an artefact for every
    module (the blank one too), the backend runs."""
    seed, idx = args
    rng = rng_for(seed, "C18/blank_module", idx)
    sub = ["emit", "run", "build"][idx % 3]
    sc = make_scenario(rng, sub, "valid_multi_blank", {"blank_text": idx // 3, "silent": False, "verbose": False, "cell": (0, 0, 0), "config": "none",
                                                       "out_dir": "fresh", "wasm": False, "script": {"read": "all", "exit": 0}, "order": "parent_first"})
    sc["name"] = "blank_module%d:%s" % (idx, sub)
    wd = os.path.join(work_root(), "C18", "bm%d" % idx)
    obs = run_census(sc, wd)
    v, calls, _ = judge(sc, obs, obs, "blank_module", None)
    return {"violations": [{"class": c, "detail": d, "scenario": sc_json(sc), "plan": [], "fault": "none"} for c, d in v]}


def _script_grid_job(args):
    """Every backend behaviour x --silent x subcommand x forced order."""
    seed, idx = args
    sub, silent, si, order = script_grid()[idx]
    rng = rng_for(seed, "C18/scripts", idx)
    sc = make_scenario(rng, sub, "valid_single", {"cell": (0, 0, 0), "silent": silent, "verbose": False, "script": dict(SCRIPTS[si]),
                                                  "order": order, "config": "none", "out_dir": rng.choice(["absent", "fresh"])})
    sc["name"] = "scripts:%s:silent=%s:%s:%s" % (sub, silent, SCRIPTS[si], order)
    wd = os.path.join(work_root(), "C18", "k%d" % idx)
    obs = run_census(sc, wd)
    v, calls, _ = judge(sc, obs, obs, "script_grid", None)
    return {"cell": [sub, silent, si, order], "branch": model_expect_zero(sc, calls)[1], "violations": [
        {"class": c, "detail": d, "scenario": sc_json(sc), "plan": [], "fault": "none"} for c, d in v]}


# ------------------------------------------------------------------ swarm --
def swarm_plan(seed, i):
    rng = rng_for(seed, TAG_SWARM, i)
    sc = make_scenario(rng)
    sc["entropy"] = rng.getrandbits(64)
    sc["name"] = "swarm%d:%s:%s" % (i, sc["sub"], sc["input_kind"])
    enabled = set(rng.sample(["eintr", "short", "hard", "stdio"], rng.randint(1, 4)))
    n_faults = rng.choice([0, 1, 1, 2, 2, 3])
    return sc, enabled, n_faults, rng


def _swarm_job(args):
    seed, i = args
    sc, enabled, n_faults, rng = swarm_plan(seed, i)
    root = os.path.join(work_root(), "C18", "s%d" % i)
    census = run_census(sc, os.path.join(root, "census"))
    calls, _ = parse_trace(census["trace"])
    res = {"i": i, "runs": 1, "violations": [], "fired": {}, "configured": {}, "triples": set(), "trace_hashes": set(), "branches": set()}
    v, calls0, _ = judge(sc, census, census, "census", None)
    res["branches"].add(model_expect_zero(sc, calls0)[1])
    for cls, d in v:
        res["violations"].append({"class": cls, "detail": d, "scenario": sc_json(sc), "plan": [], "fault": "none"})
    sites = sites_of(calls)
    plan = []
    kinds = []
    benign = True
    # bias towards calls that create in-flight state
    weights = {"fwrite": 6, "pwrite": 6, "spawn": 4, "wait": 3, "open_w": 4, "open_r": 2, "read": 2, "mkdir": 3, "pipe": 2, "out": 1, "err": 1}
    pool = [s for s in sites for _ in range(weights.get(s["kind"], 1))]
    used = set()
    for _ in range(n_faults):
        if not pool:
            break
        site = rng.choice(pool)
        if (site["cls"], site["idx"]) in used:
            continue
        cands = []
        for p, fk, b in faults_for(site):
            group = "eintr" if fk.startswith("eintr") else "short" if fk == "short" else "stdio" if site["cls"] in ("out", "err") else "hard"
            if site["cls"] in ("out", "err") and "stdio" not in enabled:
                continue
            if group in enabled or (group == "hard" and "hard" in enabled):
                cands.append((p, fk, b))
        if not cands:
            continue
        p, fk, b = rng.choice(cands)
        used.add((site["cls"], site["idx"]))
        plan += p
        kinds.append((site["kind"], fk))
        benign = benign and b
        res["configured"][fk] = res["configured"].get(fk, 0) + 1
    if plan:
        obs = exec_scenario(sc, os.path.join(root, "run"), plan=plan)
        res["runs"] += 1
        v, calls1, fired = judge(sc, obs, census, "+".join(k for _, k in kinds), benign)
        for f in fired:
            res["fired"][f["action"]] = res["fired"].get(f["action"], 0) + 1
        for sk, fk in kinds:
            res["triples"].add((sc["sub"] + "/" + sc["input_kind"], sk, fk))
        res["trace_hashes"].add(trace_sha(obs["trace"]))
        res["branches"].add(model_expect_zero(sc, calls1)[1] if not obs["timeout"] else "hang")
        for cls, d in v:
            res["violations"].append({"class": cls, "detail": d, "scenario": sc_json(sc), "plan": plan, "fault": "+".join(k for _, k in kinds)})
    res["trace_hashes"].add(trace_sha(census["trace"]))
    shutil.rmtree(root, ignore_errors=True)
    res["triples"] = sorted(res["triples"])
    res["trace_hashes"] = sorted(res["trace_hashes"])
    res["branches"] = sorted(res["branches"])
    return res


# --------------------------------------------------------- real lli probe --
def _real_lli_job(args):
    """The stub is faithful: a run with the real lli and a run with a stub
    scripted to do what lli did (read all, same exit code, same stdout) must be
    indistinguishable to penne's user."""
    seed, i = args
    rng = rng_for(seed, "C18/real_lli", i)
    sc = make_scenario(rng, "run", rng.choice(["valid_single", "valid_multi"]),
                       {"silent": False, "verbose": False, "cell": (0, 0, 0), "color": "never", "arrows": "ascii",
                        "script": {"read": "all", "exit": 0}, "order": "parent_first", "backend_args": False})
    sc["name"] = "real_lli%d" % i
    root = os.path.join(work_root(), "C18", "r%d" % i)
    real = exec_scenario(sc, os.path.join(root, "real"), real_lli=True)
    viol = []
    m = re.search(rb'Running "lli" "-"\.\.\.\n\n(.*)Output: (\d+)\nDone\.\n$', real["out"], re.S)
    if real["rc"] != 0 or not m:
        viol.append({"class": "real_lli_failed", "detail": "%s %r" % (real["status"], real["out"][-200:]), "scenario": sc_json(sc), "plan": [], "fault": "none"})
    else:
        sc2 = dict(sc)
        sc2["script"] = {"read": "all", "exit": int(m.group(2)), "out": m.group(1).hex()}
        stub = exec_scenario(sc2, os.path.join(root, "stub"))
        if stub["out"] != real["out"] or stub["rc"] != real["rc"]:
            viol.append({"class": "stub_unfaithful", "detail": "stub run differs from real lli run", "scenario": sc_json(sc), "plan": [], "fault": "none"})
    shutil.rmtree(root, ignore_errors=True)
    return {"violations": viol, "runs": 2}


def _overlap_job(args):
    """Two invocations of the tool at the same time, under one fixed schedule:
    A's backend is started and held at a gate (the stub blocks opening a FIFO),
    B runs from start to finish, the gate opens and A finishes. Both compile a
    `main.pn` of their own in directories of their own, with one shared TMPDIR,
    HOME and (for half of the runs) one shared out-dir parent. Each must show
    what it shows when it runs alone: status, output, the IR its backend got."""
    import threading
    seed, i = args
    rng = rng_for(seed, "C18/overlap", i)
    sub = "run" if i % 4 else "build"
    root = os.path.join(work_root(), "C18", "o%d" % i)
    shutil.rmtree(root, ignore_errors=True)
    os.makedirs(os.path.join(root, "shared-tmp"))
    scs = []
    for k, word in enumerate((b"alpha\n", b"bravo\n")):
        force = {"silent": False, "verbose": False, "cell": (0, 0, 0), "color": "never", "arrows": "ascii", "order": "parent_first",
                 "script": {"read": "all", "exit": 10 + 10 * k + rng.randrange(5), "out": word.hex()} if sub == "run" else {"read": "all", "exit": 0},
                 "backend_args": False, "link_args": False, "config": "none", "wasm": False, "dash_o": False, "out_dir": "absent"}
        sc = make_scenario(rng, sub, "valid_single", force)
        (old,) = list(sc["files"])
        sc["files"] = {"main.pn": sc["files"][old]}
        sc["inputs"] = sc["modules"] = ["main.pn"]
        sc["env"]["TMPDIR"] = os.path.join(root, "shared-tmp")
        sc["env"]["HOME"] = os.path.join(root, "shared-tmp")
        sc["sim_pid"] = 4242 + k
        sc["name"] = "overlap%d:%s:%s" % (i, sub, "AB"[k])
        scs.append(sc)
    a, b = scs
    alone = [exec_scenario(sc, os.path.join(root, "alone" + "AB"[k])) for k, sc in enumerate(scs)]
    gate = os.path.join(root, "gate")
    os.mkfifo(gate)
    a_gated = dict(a)
    a_gated["script"] = dict(a["script"], gate=gate)
    box = {}
    th = threading.Thread(target=lambda: box.update(obs=exec_scenario(a_gated, os.path.join(root, "A"))), daemon=True)
    th.start()
    fd = None
    while th.is_alive() and fd is None:
        try:
            fd = os.open(gate, os.O_WRONLY | os.O_NONBLOCK)     # succeeds once A's backend waits at the gate
        except OSError:
            time.sleep(0.001)
    reached = fd is not None
    ob = exec_scenario(b, os.path.join(root, "B"))
    early = reached and not th.is_alive()      # A is over although its backend still waits at the gate
    if fd is not None:
        os.write(fd, b"x")
        os.close(fd)
    th.join(timeout=TIMEOUT_S + 5)
    oa = box.get("obs")
    viol = []

    def same(tag, sc, got, ref):
        if got is None:
            viol.append(("overlap_hang", "%s did not finish" % tag))
            return
        for key in ("status", "out", "err"):
            if got[key] != ref[key]:
                viol.append(("overlap_interference", "%s next to another invocation: %s is %r, alone it is %r" %
                             (tag, key, got[key][-200:] if key != "status" else got[key], ref[key][-200:] if key != "status" else ref[key])))
                return
        if got["stdin"] != ref["stdin"]:
            viol.append(("overlap_interference", "%s next to another invocation: its backend received other IR than when it runs alone (%s vs %s bytes)" %
                         (tag, {k: len(v) for k, v in got["stdin"].items()}, {k: len(v) for k, v in ref["stdin"].items()})))
        elif [(m["id"], m["args"]) for m in got["marker"]] != [(m["id"], m["args"]) for m in ref["marker"]]:
            viol.append(("overlap_interference", "%s: backend runs %s, alone %s" % (tag, got["marker"], ref["marker"])))
    if early:
        viol.append(("finished_before_its_backend", "A was over (%s) while its backend was still held at the gate: it cannot know how the backend ends" % (oa or {}).get("status")))
    same("A (held at the gate while B ran)", a, oa, alone[0])
    same("B (ran while A's backend was held)", b, ob, alone[1])
    left = sorted(os.listdir(os.path.join(root, "shared-tmp")))
    if left:
        viol.append(("overlap_leftover", "files left in the shared TMPDIR: %s" % left[:5]))
    shutil.rmtree(root, ignore_errors=True)
    seen = {}
    for c, d in viol:
        seen.setdefault(c, d)
    return {"violations": [{"class": c, "detail": d, "scenario": sc_json(a), "plan": [], "fault": "overlap", "overlap": [sc_json(a), sc_json(b)], "index": i, "seed": seed}
                           for c, d in seen.items()], "runs": 4, "gate_reached": reached}


def _real_clang_job(args):
    """End to end with the real clang: `penne build` must leave an executable
    that behaves like the same program under `penne run` with the real lli."""
    seed, i = args
    rng = rng_for(seed, "C18/real_clang", i)
    force = {"silent": False, "verbose": False, "cell": (0, 0, 0), "color": "never", "arrows": "ascii", "script": {"read": "all", "exit": 0},
             "order": "parent_first", "backend_args": False, "link_args": False, "config": "none", "wasm": False, "dash_o": False,
             "out_dir": rng.choice(["absent", "fresh"])}
    kind = rng.choice(["valid_single", "valid_multi"])
    sc = make_scenario(rng, "build", kind, force)
    sc["name"] = "real_clang%d" % i
    if i % 2:
        # an optimising backend: undefined behaviour in the IR (a call with the wrong calling
        # convention ...) shows as an executable that behaves unlike the program under lli
        sc["backend_args"] = ["-O2"]
        sc["opts"] += ["--backend-args=-O2"]
        sc["name"] += ":O2"
    root = os.path.join(work_root(), "C18", "c%d" % i)
    viol = []
    built = exec_scenario(sc, os.path.join(root, "build"), real_clang=True, keep=True)
    exe = os.path.join(root, "build", expected_output_path(sc))
    if built["rc"] != 0 or not os.path.isfile(exe):
        viol.append({"class": "real_clang_failed", "detail": "%s, executable %s: %s" % (built["status"], "present" if os.path.isfile(exe) else "missing", built["err"].decode(errors="replace")[-300:]),
                     "scenario": sc_json(sc), "plan": [], "fault": "none"})
    else:
        r = run_proc([exe], os.path.join(root, "build"), base_env())
        sc2 = dict(sc)
        sc2["sub"] = "run"
        sc2["opts"] = [o for o in sc["opts"] if not o.startswith("--backend-args=")]
        sc2["backend_args"] = []
        sc2["stubs"] = ["lli"]
        sc2["backend_id"] = "lli"
        sc2["env"] = {k: v for k, v in sc["env"].items() if not k.startswith("PENNE_")}
        ran = exec_scenario(sc2, os.path.join(root, "run"), real_lli=True)
        m = re.search(rb'Running "lli" "-"\.\.\.\n\n(.*)Output: (\d+)\nDone\.\n$', ran["out"], re.S)
        if not m:
            viol.append({"class": "real_lli_failed", "detail": "%s %r" % (ran["status"], ran["out"][-200:]), "scenario": sc_json(sc), "plan": [], "fault": "none"})
        elif int(m.group(2)) != r.rc or m.group(1) != r.out:
            viol.append({"class": "built_executable_differs", "detail": "executable: exit %d, %r; lli: Output %s, %r" % (r.rc, r.out[-100:], m.group(2).decode(), m.group(1)[-100:]),
                         "scenario": sc_json(sc), "plan": [], "fault": "none"})
    shutil.rmtree(root, ignore_errors=True)
    return {"violations": viol, "runs": 3}


# ----------------------------------------------------------- minimisation --
def minimise(v):
    """Drop plan entries, then options, while the same class persists."""
    sc = sc_from_json(v["scenario"])
    cls = v["class"]
    root = os.path.join(work_root(), "C18", "min-%d" % os.getpid())

    def holds(sc2, plan):
        census = run_census(sc2, os.path.join(root, "c"))
        obs = exec_scenario(sc2, os.path.join(root, "r"), plan=plan) if plan else census
        benign = all((":eintr:" in p or ":short:" in p) for p in plan) and bool(plan)
        if any(":short:" in p for p in plan) and any(":errno:" in p for p in plan):
            benign = False
        vv, _, _ = judge(sc2, obs, census, v.get("fault", ""), benign if plan else None)
        return any(c == cls for c, _ in vv)

    plan = list(v["plan"])
    if v.get("fault") == "crash_restart":
        return v, False
    try:
        if not holds(sc, plan):
            shutil.rmtree(root, ignore_errors=True)
            return v, False
        for p in list(plan):
            if min_expired():
                break
            trial = [x for x in plan if x != p]
            if holds(sc, trial):
                plan = trial
        # drop options one at a time (value options together with their value)
        i = 0
        while i < len(sc["opts"]) and not min_expired():
            o = sc["opts"][i]
            width = 2 if o in ("--out-dir", "--backend", "--config", "-o") else 1
            if o in ("--out-dir",):
                i += width
                continue
            sc2 = dict(sc)
            sc2["opts"] = sc["opts"][:i] + sc["opts"][i + width:]
            if o == "--silent":
                sc2["silent"] = False
            if o == "--verbose":
                sc2["verbose"] = False
            if o.startswith("--color="):
                sc2["color"] = "auto"
                sc2["env"] = dict(sc["env"], TERM="dumb")
            if o.startswith("--arrows="):
                sc2["arrows"] = "unicode"
            if o == "--wasm":
                sc2["wasm"] = False
            if o.startswith("--backend-args="):
                sc2["backend_args"] = []
            if o.startswith("--link-args="):
                sc2["link_args"] = []
            if o in ("--backend", "--config", "-o"):
                i += width
                continue
            if holds(sc2, plan):
                sc = sc2
            else:
                i += width
    except HarnessError:
        pass
    shutil.rmtree(root, ignore_errors=True)
    out = dict(v)
    out["scenario"] = sc_json(sc)
    out["plan"] = plan
    return out, True


def _min_job(v):
    set_min_budget()
    if v.get("fault") in ("overlap", "rerun", "stale_binary", "same_dir_overlap"):
        # a pair of invocations (under one fixed schedule / one after the other): replayed as a pair
        m, ok = v, False
    else:
        m, ok = minimise(v)
    sc = m["scenario"]
    record = {"engine": "clisim", "scenario": sc, "plan": m["plan"], "fault": m.get("fault"),
              "run_seed": "%s-%s" % (sha(json.dumps(sc, sort_keys=True, default=str)), sha(json.dumps(m["plan"]))[:6]),
              "observed": {"class": m["class"], "detail": m["detail"]}, "minimised": ok,
              "argv": " ".join(["penne"] + argv_of(sc_from_json(sc))[1:])}
    if v.get("fault") == "overlap":
        record["overlap"] = {"seed": v["seed"], "index": v["index"], "scenarios": v["overlap"]}
    if v.get("fault") in ("stale_binary", "same_dir_overlap"):
        record[v["fault"]] = {"seed": v["seed"], "index": v["index"]}
    summary = "%s: %s\n  scenario %s, argv: %s\n  fault plan: %s" % (m["class"], m["detail"][:400], sc.get("name"), record["argv"], m["plan"])
    return Finding(PROP, m["class"], record, signature=m["class"], summary=summary)


# ------------------------------------------------------------------- main --
def run(tier, seed):
    t0 = time.time()
    disable_aslr()
    cfg = TIERS[tier]
    budget = float(os.environ.get("VERIF_BUDGET_S", "0") or 0)
    raw = []
    runs = 0
    configured, fired = {}, {}
    triples, traces, branches = set(), set(), set()
    enum_done = 0
    sites_total = 0
    calls_total = 0

    def absorb(res):
        nonlocal runs
        runs += res.get("runs", 0)
        for k, v in res.get("configured", {}).items():
            configured[k] = configured.get(k, 0) + v
        for k, v in res.get("fired", {}).items():
            fired[k] = fired.get(k, 0) + v
        triples.update(tuple(t) for t in res.get("triples", []))
        traces.update(res.get("trace_hashes", []))
        branches.update(res.get("branches", []))
        raw.extend(res["violations"])

    enum_sample = None
    for res in parallel_imap(_enum_job, ((seed, k, tier) for k in range(cfg["enum_scenarios"]))):
        absorb(res)
        enum_done += 1
        sites_total += res["sites"]
        calls_total += res["calls"]
        if enum_sample is None:
            enum_sample = {"scenario": res["name"], "call_sites": res["sites"], "stdio_sites_total": res["stdio_sites_total"], "runs": res["runs"]}
        if budget and time.time() - t0 > budget * 0.6:
            break
    grid_cells = []
    for res in parallel_map(_grid_job, [(seed, i) for i in range(N_GRID)]):
        runs += 1
        grid_cells.append((res["cell"], res["backend"]))
        raw.extend(res["violations"])
    script_cells = 0
    for res in parallel_map(_script_grid_job, [(seed, i) for i in range(len(script_grid()))]):
        runs += 1
        script_cells += 1
        branches.add(res["branch"])
        raw.extend(res["violations"])
    render_cells = 0
    for res in parallel_map(_render_grid_job, [(seed, i) for i in range(cfg.get("render", 240))]):
        runs += 1
        render_cells += 1
        raw.extend(res["violations"])
    error_count_cells = 0
    for res in parallel_map(_error_count_job, [(seed, i) for i in range(cfg.get("error_count", 3 * len(ERROR_COUNTS) * 4))]):
        runs += 1
        error_count_cells += 1
        raw.extend(res["violations"])
    blank_cells = 0
    for res in parallel_map(_blank_module_job, [(seed, i) for i in range(cfg.get("blank_module", 24))]):
        runs += 1
        blank_cells += 1
        raw.extend(res["violations"])
    verbose_large = 0
    for res in parallel_map(_verbose_large_job, [(seed, i) for i in range(cfg.get("verbose_large", 36))]):
        runs += 2
        verbose_large += 1
        raw.extend(res["violations"])
    fs_cells = {}
    for res in parallel_map(_fs_variant_job, [(seed, i) for i in range(len(FS_VARIANTS) * 3)]):
        runs += 1
        fs_cells["%s/%s" % (res["variant"], res["sub"])] = res["status"]
        raw.extend(res["violations"])
    swarm_done = 0
    for res in parallel_imap(_swarm_job, ((seed, i) for i in range(cfg["swarm"])), chunksize=4):
        absorb(res)
        swarm_done += 1
        if budget and time.time() - t0 > budget:
            break
    crash_done = 0
    for res in parallel_imap(_crash_restart_job, ((seed, i) for i in range(cfg["crash"])), chunksize=2):
        absorb(res)
        crash_done += 1
    lli_runs = 0
    for res in parallel_map(_real_lli_job, [(seed, i) for i in range(cfg["real_lli"])]):
        runs += res["runs"]
        lli_runs += 1
        raw.extend(res["violations"])
    clang_runs = 0
    for res in parallel_map(_real_clang_job, [(seed, i) for i in range(cfg.get("real_clang", 8))]):
        runs += res["runs"]
        clang_runs += 1
        raw.extend(res["violations"])
    rerun_pairs = 0
    for res in parallel_map(_rerun_job, [(seed, i) for i in range(cfg.get("rerun", 40))]):
        runs += res["runs"]
        rerun_pairs += 1
        raw.extend(res["violations"])
    same_dir_pairs = same_dir_held = 0
    for res in parallel_map(_same_dir_overlap_job, [(seed, i) for i in range(cfg.get("same_dir_overlap", 24))]):
        runs += res["runs"]
        same_dir_pairs += 1
        same_dir_held += bool(res["held"])
        raw.extend(res["violations"])
    for res in parallel_map(_stale_binary_job, [(seed, i) for i in range(cfg.get("stale_binary", 12))]):
        runs += res["runs"]
        raw.extend(res["violations"])
    overlap_runs = overlap_reached = 0
    for res in parallel_map(_overlap_job, [(seed, i) for i in range(cfg.get("overlap", 24))]):
        runs += res["runs"]
        overlap_runs += 1
        overlap_reached += bool(res["gate_reached"])
        raw.extend(res["violations"])
    per_class = {}
    jobs = []
    for v in raw:
        n = per_class.get(v["class"], 0)
        per_class[v["class"]] = n + 1
        if n < 4:
            jobs.append(v)
    findings = parallel_map(_min_job, jobs)
    n_viol, n_known = report_findings(PROP, findings)
    wall = time.time() - t0
    sc0 = enum_scenario(seed, 1)
    sample = {"scenario": sc0["name"], "argv": " ".join(["penne"] + argv_of(sc0)[1:]), "env": sc0["env"], "backend_script": sc0["script"],
              "forced_order": sc0["order"], "files": {k: v.decode(errors="replace")[:200] for k, v in sc0["files"].items()},
              "example_single_fault_plans": ["fwrite:1:errno:28", "fwrite:0:short:1;fwrite:1:errno:28", "pwrite:0:eintr:3", "spawn:0:errno:11", "wait:0:eintr:1"]}
    coverage = {
        "evaluations": runs,
        "distinct_nontrivial": len(triples),
        "rule": "one evaluation = one execution of the real penne CLI against the simulated OS; distinct_nontrivial = distinct (subcommand/input kind, call kind, fault kind) triples whose fault actually FIRED according to the trace (fault-free census runs and grid cells are not counted)",
        "samples": [sample, enum_sample],
        "exhaustive": False,
        "single_fault_enumeration": {"scenarios": enum_done, "call_sites": sites_total,
                                     "exhaustive_over": "every non-stdio call site of every enumerated scenario x every applicable fault kind; stdout/stderr sites sampled (first, last, random)",
                                     "intercepted_calls_in_census_runs": calls_total},
        "backend_resolution_cells": {"covered": len(grid_cells), "of": N_GRID, "cells": grid_cells},
        "backend_script_grid_cells": {"covered": script_cells, "of": len(script_grid()),
                                      "dimensions": "subcommand {run, build} x --silent x %d backend scripts x forced order" % len(SCRIPTS)},
        "real_filesystem_variants": fs_cells,
        "failing_compilations_rendered_colourless_ascii": render_cells,
        "verbose_runs_of_large_programs": verbose_large,
        "programs_with_a_module_without_declarations": blank_cells,
        "failing_compilations_by_number_of_diagnostics": {"cells": error_count_cells, "counts": ERROR_COUNTS},
        "swarm_runs": swarm_done,
        "crash_restart_runs": crash_done,
        "real_lli_cross_checks": lli_runs,
        "real_clang_end_to_end_builds": clang_runs,
        "reruns_in_the_same_directory": rerun_pairs,
        "overlapping_invocation_pairs": overlap_runs,
        "overlapping_pairs_in_one_out_dir": same_dir_pairs,
        "overlapping_pairs_in_one_out_dir_parked_at_a_write": same_dir_held,
        "overlapping_invocation_pairs_that_reached_the_gate": overlap_reached,
        "fault_kinds_configured": configured,
        "fault_kinds_fired": fired,
        "distinct_syscall_traces": len(traces),
        "model_branches_taken": sorted(branches),
        "runs_per_hour": rate_per_hour(runs, wall),
        "seeds_per_hour": rate_per_hour(enum_done + swarm_done, wall),
        "simulated_time": "none: the CLI has no timers; logical time is the index of the intercepted call (%d calls in census runs); the simulated clock is served but never read" % calls_total,
        "aslr_disabled": aslr_disabled(),
        "components": COMPONENTS,
        "known_findings_matched": n_known,
        "violations_by_class": per_class,
    }
    write_evidence(PROP, tier, seed, "fault_enumeration", coverage, wall, n_viol, [
        "LD_PRELOAD interposition reaches every libc call the CLI makes for I/O and processes (std uses the PLT; the census shows opens, reads, writes, mkdirs, pipe2, posix_spawn, waitpid)",
        "close() errors are not injected (std::fs::write ignores them); allocation failure aborts by design and is out of scope",
        "a backend that exits without reading its input is judged only through the trace (EPIPE on the pipe write => non-zero exit), never through timing",
    ])
    print("C18 %s: %d runs (%d enumerated scenarios with %d call sites, %d grid cells, %d swarm, %d real-lli), %d fired-fault triples, %d traces, %d violation(s), %d known, %.1fs"
          % (tier, runs, enum_done, sites_total, len(grid_cells), swarm_done, lli_runs, len(triples), len(traces), n_viol, n_known, wall))
    return 1 if n_viol else 0


def replay(record):
    disable_aslr()
    if record.get("overlap") or record.get("stale_binary") or record.get("same_dir_overlap"):
        if record.get("overlap"):
            res = _overlap_job((record["overlap"]["seed"], record["overlap"]["index"]))
        elif record.get("stale_binary"):
            res = _stale_binary_job((record["stale_binary"]["seed"], record["stale_binary"]["index"]))
        else:
            res = _same_dir_overlap_job((record["same_dir_overlap"]["seed"], record["same_dir_overlap"]["index"]))
        for v in res["violations"]:
            print("replay: %s: %s" % (v["class"], v["detail"][:400]))
        if any(v["class"] == record["observed"]["class"] for v in res["violations"]):
            print("VIOLATION property=%s replay=%s" % (PROP, record.get("_path", "?")))
            return 1
        print("replay: recorded class %s not reproduced" % record["observed"]["class"])
        return 1 if res["violations"] else 0
    sc = sc_from_json(record["scenario"])
    plan = record["plan"]
    root = os.path.join(work_root(), "C18", "replay-%d" % os.getpid())
    census = run_census(sc, os.path.join(root, "c"))
    if record.get("fault") == "rerun":
        v = rerun_verdict(sc, root)
        for c, d in v:
            print("replay: %s: %s" % (c, d[:400]))
        if any(c == record["observed"]["class"] for c, _ in v):
            print("VIOLATION property=%s replay=%s" % (PROP, record.get("_path", "?")))
            return 1
        print("replay: recorded class %s not reproduced" % record["observed"]["class"])
        return 1 if v else 0
    if record.get("fault") == "crash_restart":
        exec_scenario(sc, os.path.join(root, "r"), plan=plan, keep=True)
        obs = exec_scenario(sc, os.path.join(root, "r"), restart=True)
        plan = []
    else:
        obs = exec_scenario(sc, os.path.join(root, "r"), plan=plan) if plan else census
    benign = bool(plan) and all((":eintr:" in p or ":short:" in p) for p in plan)
    if any(":short:" in p for p in plan) and any(":errno:" in p for p in plan):
        benign = False
    v, _, fired = judge(sc, obs, census, record.get("fault") or "", benign if plan else None)
    shutil.rmtree(root, ignore_errors=True)
    print("replay: argv: %s" % record.get("argv"))
    print("replay: plan %s fired %s -> %s" % (plan, fired, obs["status"]))
    for c, d in v:
        print("replay: %s: %s" % (c, d[:400]))
    if any(c == record["observed"]["class"] for c, _ in v):
        print("VIOLATION property=%s replay=%s" % (PROP, record.get("_path", "?")))
        return 1
    print("replay: recorded class %s not reproduced" % record["observed"]["class"])
    return 1 if v else 0


def determinism_log(seed, indices):
    lines = []
    for res in parallel_map(_swarm_job, [(seed, i) for i in indices]):
        lines.append("C18 swarm %d runs=%d viol=%s fired=%s traces=%s" % (
            res["i"], res["runs"], sorted((v["class"], v["detail"]) for v in res["violations"]), sorted(res["fired"].items()), res["trace_hashes"]))
    for res in parallel_map(_enum_job, [(seed, k, "quick") for k in indices[:3]]):
        lines.append("C18 enum %d runs=%d viol=%d traces=%s" % (res["k"], res["runs"], len(res["violations"]), sha("".join(res["trace_hashes"]))))
    return lines
