"""Shared machinery of the deterministic-simulation engines (python3, stdlib only).

One integer decides everything: VERIF_SEED -> run_seed(tag, i) -> a private
random.Random per run.  Nothing here reads a clock or the process id for a
decision; wall time is only *reported*.
"""
import ctypes
import hashlib
import json
import os
import random
import shutil
import signal
import subprocess
import sys
import time

VERIF = os.path.dirname(os.path.dirname(os.path.abspath(__file__)))
REPO = os.environ.get("VERIF_REPO", "/repo")
BUILD = os.environ.get("VERIF_BUILD") or os.path.join(VERIF, ".build")
PENNE = os.path.join(BUILD, "penne", "debug", "penne")
PWORKER = os.path.join(BUILD, "penne", "debug", "pworker")
SIMOS = os.path.join(BUILD, "sim", "simos.so")
STUB = os.path.join(BUILD, "sim", "stub_backend")
EVIDENCE_DIR = os.path.join(VERIF, "evidence")
REPLAY_DIR = os.path.join(VERIF, "replays")
KNOWN_FINDINGS = os.path.join(VERIF, "known_findings.txt")
DEFAULT_SEED = 20260925
MASK = (1 << 64) - 1

SYSTEM_PATH = "/usr/bin:/bin"


# ---------------------------------------------------------------- seeds --
def splitmix64(state):
    state = (state + 0x9E3779B97F4A7C15) & MASK
    z = state
    z = ((z ^ (z >> 30)) * 0xBF58476D1CE4E5B9) & MASK
    z = ((z ^ (z >> 27)) * 0x94D049BB133111EB) & MASK
    return state, z ^ (z >> 31)


def mix(a, b):
    """Same function as `mix` in pworker/src/main.rs."""
    _, x = splitmix64(a & MASK)
    _, y = splitmix64((x ^ b) & MASK)
    return y


def tag_value(tag):
    return int.from_bytes(hashlib.sha256(tag.encode()).digest()[:8], "big")


def run_seed(seed, tag, index):
    return mix(mix(seed & MASK, tag_value(tag)), index)


def rng_for(seed, tag, index):
    return random.Random(run_seed(seed, tag, index))


def verif_seed():
    v = os.environ.get("VERIF_SEED", "")
    try:
        return int(v)
    except ValueError:
        return DEFAULT_SEED


def verif_jobs():
    try:
        return max(1, int(os.environ.get("VERIF_JOBS", "16")))
    except ValueError:
        return 16


def sha(data):
    if isinstance(data, str):
        data = data.encode()
    return hashlib.sha256(data).hexdigest()[:16]


# ------------------------------------------------------------- harness --
class HarnessError(Exception):
    pass


def work_root():
    root = os.environ.get("VERIF_WORK")
    if not root:
        shm = "/dev/shm"
        if os.path.isdir(shm) and os.access(shm, os.W_OK):
            root = os.path.join(shm, "penne-verif-%d" % os.getuid())
        else:
            root = os.path.join(VERIF, ".work")
    os.makedirs(root, exist_ok=True)
    return root


ADDR_NO_RANDOMIZE = 0x0040000
_aslr_disabled = None


def disable_aslr():
    """Address-space layout is one of the seams: off for every simulated
    process (inherited through fork/exec)."""
    global _aslr_disabled
    if _aslr_disabled is None:
        try:
            libc = ctypes.CDLL(None, use_errno=True)
            cur = libc.personality(0xFFFFFFFF)
            r = libc.personality(cur | ADDR_NO_RANDOMIZE)
            _aslr_disabled = r != -1
        except Exception:
            _aslr_disabled = False
    return _aslr_disabled


def aslr_disabled():
    return bool(_aslr_disabled)


def build(verbose=False):
    """(Re)build simos, the stub, penne (alpha) and pworker from /repo's
    current working tree. Raises HarnessError on failure."""
    script = os.path.join(VERIF, "tools", "build.sh")
    p = subprocess.run([script], stdout=subprocess.PIPE, stderr=subprocess.STDOUT)
    if p.returncode != 0:
        sys.stdout.write(p.stdout.decode(errors="replace")[-6000:])
        raise HarnessError("build failed (exit %d)" % p.returncode)
    if verbose:
        sys.stdout.write(p.stdout.decode(errors="replace")[-2000:])
    for path in (PENNE, PWORKER, SIMOS, STUB):
        if not os.path.exists(path):
            raise HarnessError("missing build product " + path)


def fresh_dir(path):
    if os.path.exists(path):
        shutil.rmtree(path, ignore_errors=True)
    os.makedirs(path)
    return path


def write_files(cwd, files):
    for name, content in files.items():
        path = os.path.join(cwd, name)
        d = os.path.dirname(path)
        if d:
            os.makedirs(d, exist_ok=True)
        mode = "wb" if isinstance(content, bytes) else "w"
        if mode == "w":
            with open(path, "w", newline="") as f:
                f.write(content)
        else:
            with open(path, "wb") as f:
                f.write(content)


def base_env(extra=None):
    env = {"PATH": SYSTEM_PATH}
    if extra:
        env.update(extra)
    return env


def sim_env(env, entropy=None, plan=None, order=None, trace=None, clock=None,
            pid=None, trace_stdio=True, hold=None):
    """Environment for a process running under the simulated OS."""
    e = dict(env)
    e["LD_PRELOAD"] = SIMOS
    if entropy is not None:
        e["VERIF_SIM_ENTROPY"] = str(entropy & MASK)
    if plan:
        e["VERIF_SIM_PLAN"] = ";".join(plan)
    if order:
        e["VERIF_SIM_ORDER"] = order
    if hold:
        e["VERIF_SIM_HOLD"] = hold
    if trace:
        e["VERIF_SIM_TRACE"] = trace
    if clock is not None:
        e["VERIF_SIM_CLOCK"] = "%d:%d" % clock
    if pid is not None:
        e["VERIF_SIM_PID"] = str(pid)
    if not trace_stdio:
        e["VERIF_SIM_TRACE_STDIO"] = "0"
    return e


TIMEOUT_S = int(os.environ.get("VERIF_TIMEOUT_S", "30"))


class Result:
    __slots__ = ("rc", "sig", "out", "err", "timeout", "trace")

    def __init__(self, rc, sig, out, err, timeout=False, trace=None):
        self.rc = rc
        self.sig = sig
        self.out = out
        self.err = err
        self.timeout = timeout
        self.trace = trace

    def status(self):
        if self.timeout:
            return "timeout"
        if self.sig:
            return "signal:%d" % self.sig
        return "exit:%d" % self.rc

    def brief(self):
        return {"status": self.status(),
                "stdout": self.out.decode(errors="replace")[-1500:],
                "stderr": self.err.decode(errors="replace")[-1500:]}


def run_proc(argv, cwd, env, stdin=None, timeout=TIMEOUT_S, stdout_to=None,
             aslr=False, stdout_kind="pipe"):
    """Run one process; never raises on failure of the child."""
    out_f = subprocess.PIPE
    fh = None
    if stdout_to:
        fh = open(stdout_to, "wb")
        out_f = fh
    preexec = None
    pty_master = None
    if stdout_kind == "pty":
        # stdout is a pseudo-terminal (what `--color=auto` and isatty() look at)
        import pty
        pty_master, pty_slave = pty.openpty()
        fh = os.fdopen(pty_slave, "wb", buffering=0)
        out_f = fh
    if stdout_kind == "devfull":
        fh = open("/dev/full", "wb")
        out_f = fh
    elif stdout_kind == "closed":
        out_f = None

        def preexec():
            os.close(1)
    if aslr:
        def preexec():
            libc = ctypes.CDLL(None)
            cur = libc.personality(0xFFFFFFFF)
            libc.personality(cur & ~ADDR_NO_RANDOMIZE)
    try:
        p = subprocess.Popen(argv, cwd=cwd, env=env, stdin=subprocess.PIPE if stdin is not None else subprocess.DEVNULL,
                             stdout=out_f, stderr=subprocess.PIPE, preexec_fn=preexec,
                             close_fds=True, start_new_session=True)
    except OSError as e:
        if fh:
            fh.close()
        raise HarnessError("cannot start %s: %s" % (argv[0], e))
    pty_data = b""
    try:
        if pty_master is not None:
            fh.close()
            fh = None
            import select
            deadline = time.time() + timeout
            while True:
                r, _, _ = select.select([pty_master], [], [], 0.05)
                if r:
                    try:
                        chunk = os.read(pty_master, 65536)
                    except OSError:
                        chunk = b""
                    if not chunk:
                        break
                    pty_data += chunk
                elif p.poll() is not None:
                    break
                if time.time() > deadline:
                    raise subprocess.TimeoutExpired(argv, timeout)
        out, err = p.communicate(stdin, timeout=timeout)
        timed_out = False
    except subprocess.TimeoutExpired:
        # kill the whole process group: a backend child may hold the pipes
        try:
            os.killpg(p.pid, signal.SIGKILL)
        except OSError:
            p.kill()
        try:
            out, err = p.communicate(timeout=10)
        except subprocess.TimeoutExpired:
            out, err = b"", b""
        timed_out = True
    if fh:
        fh.close()
        if stdout_to:
            with open(stdout_to, "rb") as f:
                out = f.read()
    if pty_master is not None:
        os.close(pty_master)
        out = pty_data.replace(b"\r\n", b"\n")     # the terminal's ONLCR
    rc = p.returncode
    sig = -rc if rc is not None and rc < 0 else 0
    return Result(rc if rc is not None and rc >= 0 else -1, sig, out or b"", err or b"", timed_out)


def read_trace(path):
    try:
        with open(path, "r", errors="replace") as f:
            return f.read().splitlines()
    except OSError:
        return []


def fired_faults(trace):
    return [l[2:] for l in trace if l.startswith("F ")]


# --------------------------------------------------------- parallelism --
def _worker_entry(args):
    func, item = args
    return func(item)


def _executor(jobs):
    import concurrent.futures
    import multiprocessing
    return concurrent.futures.ProcessPoolExecutor(max_workers=jobs, mp_context=multiprocessing.get_context("fork"))


def parallel_map(func, items, jobs=None):
    """Deterministic parallel map: results come back in item order whatever
    the worker count. A worker that dies is a harness error, never a hang."""
    return list(parallel_imap(func, items, jobs))


def parallel_imap(func, items, jobs=None, chunksize=1):
    """Ordered lazy parallel map (for budget-capped thorough runs)."""
    import concurrent.futures
    jobs = jobs or verif_jobs()
    if jobs <= 1:
        for i in items:
            yield func(i)
        return
    ex = _executor(jobs)
    try:
        for r in ex.map(_worker_entry, ((func, i) for i in items), chunksize=chunksize):
            yield r
    except concurrent.futures.process.BrokenProcessPool as e:
        raise HarnessError("a simulation worker process died (%s)" % e)
    finally:
        ex.shutdown(wait=False, cancel_futures=True)


# minimisation runs on a wall-clock budget (reported in the replay record);
# the verdict never depends on it
_min_deadline = [None]


def set_min_budget(seconds=None):
    if seconds is None:
        seconds = float(os.environ.get("VERIF_MIN_BUDGET_S", "90"))
    _min_deadline[0] = time.time() + seconds


def min_expired():
    return _min_deadline[0] is not None and time.time() > _min_deadline[0]


# ------------------------------------------------ findings and evidence --
class Finding:
    """One violation, self-contained enough to be replayed."""

    def __init__(self, prop, cls, record, signature=None, summary=""):
        self.prop = prop
        self.cls = cls
        self.record = record
        self.signature = signature or cls
        self.summary = summary


def load_known_findings():
    known, fixed = [], []
    try:
        with open(KNOWN_FINDINGS) as f:
            for line in f:
                line = line.strip()
                if not line or line.startswith("#"):
                    continue
                kind, _, rest = line.partition(":")
                fields = {}
                words = rest.split()
                desc = []
                for w in words:
                    if "=" in w and not desc:
                        k, _, v = w.partition("=")
                        fields[k] = v
                    else:
                        desc.append(w)
                fields["desc"] = " ".join(desc)
                if kind == "known":
                    known.append(fields)
                elif kind == "fixed":
                    fixed.append(fields)
    except OSError:
        pass
    return known, fixed


def is_known_signature(prop, signature):
    """A finding whose signature is listed as known needs no minimisation: it is
    reported by its signature (and minimising it on every run costs a minute)."""
    known, _ = load_known_findings()
    return any(k.get("property") == prop and k.get("signature") == signature for k in known)


def match_known(finding, known):
    for k in known:
        if k.get("property") == finding.prop and k.get("signature") == finding.signature:
            return k
    return None


def write_replay(finding, name):
    d = os.path.join(REPLAY_DIR, finding.prop)
    os.makedirs(d, exist_ok=True)
    path = os.path.join(d, name + ".json")
    rec = dict(finding.record)
    rec["property"] = finding.prop
    rec["class"] = finding.cls
    rec["signature"] = finding.signature
    rec["summary"] = finding.summary
    with open(path, "w") as f:
        json.dump(rec, f, indent=1, sort_keys=True)
    return path


def report_findings(prop, findings):
    """Print KNOWN-FINDING / VIOLATION lines. Returns (violations, known)."""
    known, _fixed = load_known_findings()
    n_viol = 0
    n_known = 0
    seen_known = set()
    seen_sig = {}
    for f in findings:
        k = match_known(f, known)
        if k is not None:
            n_known += 1
            if f.signature not in seen_known:
                seen_known.add(f.signature)
                print("KNOWN-FINDING: property=%s %s" % (prop, k.get("desc", f.signature)))
            continue
        n_viol += 1
        cnt = seen_sig.get(f.signature, 0)
        seen_sig[f.signature] = cnt + 1
        if cnt >= 3:
            continue  # at most three replay files per signature
        name = "%s-%s" % (f.cls, f.record.get("run_seed", sha(json.dumps(f.record, sort_keys=True, default=str))))
        path = write_replay(f, name)
        print("VIOLATION property=%s replay=%s" % (prop, path))
        if f.summary:
            # (file names that are not UTF-8 are shown escaped: the output of a check is text)
            print("  " + f.summary.replace("\n", "\n  ")[:1200].encode("utf-8", "backslashreplace").decode("utf-8"))
    return n_viol, n_known


def write_evidence(prop, tier, seed, level, coverage, wall_s, violations,
                   assumptions):
    os.makedirs(EVIDENCE_DIR, exist_ok=True)
    path = os.path.join(EVIDENCE_DIR, prop + ".json")
    doc = {
        "property_id": prop,
        "tier": tier,
        "seed": seed,
        "level": level,
        "coverage": coverage,
        "assumptions": assumptions,
        "wall_s": round(wall_s, 3),
        "violations": violations,
    }
    tmp = path + ".tmp"
    with open(tmp, "w") as f:
        json.dump(doc, f, indent=1, sort_keys=True)
        f.write("\n")
    os.replace(tmp, path)
    return path


def rate_per_hour(n, wall_s):
    return int(n * 3600 / wall_s) if wall_s > 0 else 0


COMPONENTS = {
    "real": [
        "penne CLI binary built from /repo's working tree (--features alpha,llvm-sys): clap, lexer, parser, expander, scoper, typer, analyzer, linter, resolver, generator, LLVM 14 via llvm-sys, Rust std, glibc",
        "kernel for every system call that is not faulted",
        "penne library through pworker (same build)",
        "llvm-as / opt / lli as independent reference tools",
    ],
    "stub": [
        "simos.so: getrandom/getentropy stream, clock, getpid; injected results of open/read/write/mkdir/pipe2/posix_spawn/waitpid",
        "stub_backend: scripted stand-in for clang/lli where the backend's behaviour is the fault",
    ],
}
