"""Per-diagnostic oracles on the secondary locations of a structured diagnostic
(the Debug rendering of penne::error::Error): where the language itself fixes
what a secondary location must point at - the declaration of the very name the
diagnostic is about, the label a goto jumps to, the order of goto, declaration
and label in a forward jump - the text under the span is compared with it.

Every rule is justified by the language (names are unique per scope, gotos only
jump forward), not by what the current implementation happens to print."""
import re

IDENT = re.compile(r"[A-Za-z_][A-Za-z0-9_]*")


def parse_fields(e):
    """`Variant { a: X, b: Y { .. } }` -> ("Variant", {"a": "X", "b": "Y { .. }"}).
    Only the top level is split; strings and nested braces are skipped over."""
    head, _, rest = e.partition(" {")
    if not rest:
        return e.strip(), {}
    body = rest.rstrip()
    if body.endswith("}"):
        body = body[:-1]
    fields = {}
    depth = 0
    in_str = False
    cur = ""
    parts = []
    i = 0
    while i < len(body):
        c = body[i]
        if in_str:
            cur += c
            if c == "\\":
                cur += body[i + 1:i + 2]
                i += 1
            elif c == '"':
                in_str = False
        elif c == '"':
            in_str = True
            cur += c
        elif c in "{[(":
            depth += 1
            cur += c
        elif c in "}])":
            depth -= 1
            cur += c
        elif c == "," and depth == 0:
            parts.append(cur)
            cur = ""
        else:
            cur += c
        i += 1
    if cur.strip():
        parts.append(cur)
    for p in parts:
        k, sep, v = p.strip().partition(": ")
        if sep and IDENT.fullmatch(k):
            fields[k] = v.strip()
    return head.strip(), fields


LOC1 = re.compile(r'^Location \{ source_filename: "((?:[^"\\]|\\.)*)", span: (\d+)\.\.(\d+), line_number: (\d+), line_offset: (\d+) \}$')


def loc_of(v):
    m = LOC1.match(v or "")
    if not m:
        return None
    return m.group(1), int(m.group(2)), int(m.group(3))


def text_at(loc, texts):
    if loc is None:
        return None
    t = texts.get(loc[0])
    if t is None or loc[2] > len(t):
        return None
    return t[loc[1]:loc[2]]


def unquote(v):
    if v and len(v) >= 2 and v[0] == '"' and v[-1] == '"' and "\\" not in v:
        return v[1:-1]
    return None


# (variant, field holding a name, field holding the location that must show that name)
NAME_AT = [
    ("DuplicateDeclarationConstant", "name", "previous"),
    ("DuplicateDeclarationFunction", "name", "previous"),
    ("DuplicateDeclarationLabel", "name", "previous"),
    ("DuplicateDeclarationMember", "name", "previous"),
    ("DuplicateDeclarationParameter", "name", "previous"),
    ("DuplicateDeclarationStructure", "name", "previous"),
    ("DuplicateDeclarationVariable", "name", "previous"),
    ("NotACompileTimeConstant", "name", "location_of_declaration"),
    ("VariableDeclarationMayBeSkipped", "name", "location_of_declaration"),
    ("VariableDeclarationMayBeSkipped", "label", "location_of_label"),
    ("UndefinedMember", "name_of_structure", "location_of_declaration"),
    ("ArgumentTypeMismatch", "parameter_name", "location_of_declaration"),
    ("ArgumentMissingAddress", "parameter_name", "location_of_declaration"),
    ("CyclicalStructure", "name_of_structure", "location_of_declaration"),
    ("CyclicalStructureWithConstant", "name_of_structure", "location_of_declaration"),
    ("CyclicalStructureWithConstant", "name_of_constant", "location_of_constant"),
    ("ConflictingTypes", "name", "previous"),
    ("ConflictingTypesInAssignment", "name", "previous"),
    ("ExcessAddressInAssignment", "name", "previous"),
]

# Not a rule: what `previous` of NotAnArray / NotAStructure / NotAnArrayWithLength
# points at (base variable or last member) differs between these kinds on the
# pinned tree, and the property speaks of the primary location only.
LAST_NAME_AT = []


def check(e, texts, stats=None, only=None):
    variant, f = parse_fields(e)
    out = []

    def count(k):
        if stats is not None:
            stats[k] = stats.get(k, 0) + 1

    for v, nf, lf in NAME_AT:
        if v != variant or (only is not None and (v, nf, lf) not in only):
            continue
        name = unquote(f.get(nf))
        got = text_at(loc_of(f.get(lf)), texts)
        if name is None or got is None or not IDENT.fullmatch(name):
            continue
        count("secondary_spans_checked")
        if name not in IDENT.findall(got):
            out.append(("secondary_span_not_at_named_text", "%s: %s is %r but the text under %s is %r: %s" % (variant, nf, name, lf, got[:40], e[:160])))
    for v, lf, pf in LAST_NAME_AT:
        if v != variant or (only is not None and (v, lf, pf) not in only):
            continue
        a = text_at(loc_of(f.get(lf)), texts)
        b = text_at(loc_of(f.get(pf)), texts)
        if a is None or b is None:
            continue
        names = IDENT.findall(a)
        if not names:
            continue
        count("secondary_spans_checked")
        if names[-1] not in IDENT.findall(b):
            out.append(("secondary_span_not_at_named_text", "%s: the use is %r but the text under %s is %r: %s" % (variant, a[:40], pf, b[:40], e[:160])))
    if variant == "IllegalReturnType":
        # the type a function may not return stands behind the arrow of its head
        loc = loc_of(f.get("location"))
        t = texts.get(loc[0]) if loc else None
        if t is not None and loc[1] <= len(t):
            count("secondary_spans_checked")
            if not t[:loc[1]].rstrip().endswith("->"):
                out.append(("return_type_error_not_at_the_return_type", "IllegalReturnType is located at %r, which does not follow a `->`: %s" % (t[loc[1]:loc[2]][:30], e[:160])))
    if variant == "VariableDeclarationMayBeSkipped" and (only is None or "goto_order" in only):
        g, d, l = loc_of(f.get("location_of_goto")), loc_of(f.get("location_of_declaration")), loc_of(f.get("location_of_label"))
        if g and d and l and g[0] == d[0] == l[0]:
            count("secondary_spans_checked")
            gt = text_at(g, texts) or ""
            if not gt.startswith("goto"):
                out.append(("secondary_span_not_at_named_text", "location_of_goto is at %r, not at a goto: %s" % (gt[:20], e[:160])))
            if not (g[1] < d[1] < l[1]):
                out.append(("secondary_span_order", "a goto at %d skips a declaration at %d up to a label at %d: gotos only jump forward: %s" % (g[1], d[1], l[1], e[:160])))
    return out
