"""detsim -- C13: diagnostics are well-located and compilation is deterministic.

The deciding step is variation of everything *around* a fixed input set: the
per-process entropy stream (hash keys), the simulated clock and pid, the
environment (TERM, NO_COLOR, stdout kind) and the address-space layout. One
input set is compiled many times in fresh processes of the REAL penne CLI;
D1/D2 demand byte-identical results, D3/D4 monitor rendering and locations.
"""
import json
import os
import random
import re
import unicodedata
import shutil
import time

from common import *  # noqa: F401,F403
import pngen
import modsim
import seclabels

PROP = "C13"
TAG_GEN = "C13/gen"
TAG_MUT = "C13/mut"
TAG_CORPUS = "C13/corpus"

TIERS = {
    "quick": dict(seeds=3, generated=120, mutated=160, d3_every=2, aslr_probe=24, zoo_step=2),
    "thorough": dict(seeds=8, generated=8000, mutated=12000, d3_every=1, aslr_probe=300, zoo_step=1, large_runs=120),
}

ESC = b"\x1b"
PANIC_RE = re.compile(rb"thread '[^']*' \(\d+\) panicked at ([^\n]*)")
HDR = re.compile(r"(?:,-|╭─)\[ ?([^\]\s]+):(\d+):(\d+) ?\]")
CODE = re.compile(r"\[([EL]\d+)\]")
LOC = re.compile(r'Location \{ source_filename: "((?:[^"\\]|\\.)*)", span: (\d+)\.\.(\d+), line_number: (\d+), line_offset: (\d+) \}')
NAMED_LOC = re.compile(r'(?<![A-Za-z_])name: "((?:[^"\\]|\\.)*)", location: Location \{ source_filename: "((?:[^"\\]|\\.)*)", span: (\d+)\.\.(\d+),')
LEXICAL = re.compile(r'Lexical \{ error: (\w+), location: Location \{ source_filename: "((?:[^"\\]|\\.)*)", span: (\d+)\.\.(\d+),')
EXPECTATION = re.compile(r'expectation: "((?:[^"\\]|\\.)*)"')
ANSI = re.compile(rb"\x1b\[[0-9;]*m")


# -------------------------------------------------------------- catalogue --
def catalogue():
    """Codes that have a section in docs/errors.md."""
    try:
        with open(os.path.join(REPO, "docs", "errors.md")) as f:
            return set(re.findall(r"^## (?:Error|Lint) code ([EL]\d+)\s*$", f.read(), re.M))
    except OSError:
        return set()


def code_table():
    """Codes the compiler can attach to a diagnostic (Error::code)."""
    try:
        with open(os.path.join(REPO, "src", "alpha", "error.rs")) as f:
            text = f.read()
    except OSError:
        return set()
    a = text.find("pub fn code(&self) -> u16")
    b = text.find("fn location(&self)", a)
    out = set()
    for n in re.findall(r"=> (\d+),", text[a:b]):
        n = int(n)
        out.add(("L%d" if n >= 1000 else "E%d") % n)
    return out


def catalogue_findings(observed_codes):
    """The 'published catalogue' clause, monitored: every code of the code
    table and every code actually seen in a rendered diagnostic must have a
    section in docs/errors.md. (A static comparison plus an observation; no
    simulation is involved, see DESIGN 4.)"""
    cat = catalogue()
    if not cat:
        return []
    missing = sorted((code_table() | set(observed_codes)) - cat)
    out = []
    for code in missing:
        seen = code in observed_codes
        record = {"engine": "detsim", "static_catalogue_check": True, "code": code, "run_seed": "catalogue-" + code,
                  "observed": {"class": "code_not_in_catalogue", "detail": "%s has no section in docs/errors.md (%s)" %
                               (code, "seen in a rendered diagnostic of this run" if seen else "listed in Error::code")}}
        out.append(Finding(PROP, "code_not_in_catalogue", record, signature="code_not_in_catalogue/" + code,
                           summary="diagnostic code %s is not in the published catalogue docs/errors.md" % code))
    return out


# ------------------------------------------------------------ input sets --
def corpus_sets():
    """Every sample, example and library file of the repository, alone; the
    import samples with their imports in every order."""
    import itertools
    sets = []
    roots = ["tests/samples/valid", "tests/samples/invalid", "tests/samples/unresolved", "examples", "core", "vendor"]
    for root in roots:
        base = os.path.join(REPO, root)
        for dirpath, _dirs, names in sorted(os.walk(base)):
            for n in sorted(names):
                if not n.endswith(".pn"):
                    continue
                p = os.path.join(dirpath, n)
                with open(p, "rb") as f:
                    data = f.read()
                rel = os.path.relpath(p, REPO)
                sets.append({"id": "corpus:" + rel, "files": {n: data}, "order": [n], "kind": "corpus"})
    valid = os.path.join(REPO, "tests/samples/valid")

    def rd(n):
        with open(os.path.join(valid, n), "rb") as f:
            return f.read()
    groups = [["import_position_and_line.pn", "position.pn", "line.pn"],
              ["import_sum_of_squares.pn", "position.pn", "sum_of_squares.pn"]]
    for g in groups:
        try:
            files = {n: rd(n) for n in g}
        except OSError:
            continue
        for perm in itertools.permutations(g):
            sets.append({"id": "corpus-import:" + ",".join(perm), "files": files, "order": list(perm), "kind": "corpus_import"})
    try:
        with open(os.path.join(REPO, "examples/import_core.pn"), "rb") as f:
            data = f.read()
        for order in (["import_core.pn", "core:text"], ["core:text", "import_core.pn"], ["import_core.pn", "core:text", "vendor:libc"]):
            sets.append({"id": "corpus-import:" + ",".join(order), "files": {"import_core.pn": data}, "order": order, "kind": "corpus_import"})
    except OSError:
        pass
    # misuse of a bundled package: the secondary label of the diagnostic lies
    # inside a core:/vendor: file
    misuse = [
        ("core:text", b'import "core:text/char.pn";\n\nfn main() -> i32\n{\n\tvar t = is_control_char(1, 2);\n\tvar u = is_control_char(true);\n\treturn: 0\n}\n'),
        ("vendor:libc", b'import "vendor:libc/stdlib.pn";\n\nfn main() -> i32\n{\n\tvar p = malloc(10, 1);\n\tfree(7);\n\treturn: 0\n}\n'),
        ("vendor:libc/stdlib.pn", b'import "vendor:libc/stdlib.pn";\n\nfn abort()\n{\n}\n\nfn main() -> i32\n{\n\treturn: 0\n}\n'),
    ]
    for pkg, text in misuse:
        for order in (["user.pn", pkg], [pkg, "user.pn"]):
            sets.append({"id": "package-misuse:" + ",".join(order), "files": {"user.pn": text}, "order": order, "kind": "corpus_import"})
    return sets


MISTAKES = ["dup_pub_fn", "dup_pub_const", "dup_pub_struct", "type_error_in_importer", "error_in_imported",
            "unresolved_import", "syntax_error", "undefined_in_two_modules", "cyclic_consts", "cyclic_structs",
            "cyclic_struct_const", "multibyte_then_error", "triple_duplicate", "lints_in_two_files", "hex_separator_then_error", "deep_nesting", "lexical_error_in_name_position", "skipped_declarations", "long_line_then_error", "same_pub_fn_in_two_modules", "long_type_name", "same_missing_member_twice", "illegal_return_type_in_imported", "array_length_above_u32", "imported_file_not_passed"]


def generated_set(seed, i):
    rng = rng_for(seed, TAG_GEN, i)
    prog = pngen.generate(rng, n_funcs=rng.randint(3, 8))
    sp = pngen.random_split(prog, rng, k=rng.choice([2, 3, 3, 4]))
    pngen.perturb(sp, rng)
    files = sp.file_map(rng)
    names = list(sp.files)
    mistakes = []
    n_mist = rng.choice([0, 1, 1, 2, 2, 3])
    for _ in range(n_mist):
        m = rng.choice(MISTAKES)
        mistakes.append(m)
        importers = [x for x in range(sp.k) if len(sp.imports[x]) >= 2] or [x for x in range(sp.k) if sp.imports[x]]
        a = rng.choice(importers) if importers else 0
        tgts = sp.imports[a] or [b for b in range(sp.k) if b != a]
        if m.startswith("dup_pub"):
            two = rng.sample(tgts, 2) if len(tgts) >= 2 else tgts * 2
            for b in two[:2]:
                if m == "dup_pub_fn":
                    files[sp.files[b]] += "\npub fn dupe(a: i32) -> i32\n{\n\treturn: a + %d\n}\n" % b
                elif m == "dup_pub_const":
                    files[sp.files[b]] += "\npub const DUPE: i32 = %d;\n" % (b + 1)
                else:
                    files[sp.files[b]] += "\npub struct Dupe\n{\n\tv: i32,\n}\n"
        elif m == "type_error_in_importer":
            fns = [it.name for it in prog.items if it.kind == "fn" and it.sig[0] == "ii_i" and it.name in sp.visible(a)]
            body = "".join("\tvar e%d = %s(true, %d);\n" % (j, f, j) for j, f in enumerate(fns[:2])) or "\tvar e0: bool = 1;\n"
            files[sp.files[a]] += "\nfn zz_bad()\n{\n%s}\n" % body
        elif m == "error_in_imported":
            b = rng.choice(tgts)
            files[sp.files[b]] += "\nfn zz_worse() -> i32\n{\n\tvar x: u8 = true;\n\treturn: x\n}\n"
        elif m == "unresolved_import":
            name = rng.choice(["x", "lib", "é"])
            own = random.Random("C13/long_import:%s:%d:%d" % (seed, i, len(mistakes)))
            if own.random() < 0.8:
                # a long path full of multi-byte characters (whatever a report does to shorten or
                # align a quoted path, some character straddles the place where it cuts)
                name = "a" * own.randrange(3) + own.choice(["é", "字", "é字", "😀"]) * own.randint(12, 60) + own.choice(["x", "/x", "xy", "/xyz", ""])
            files[sp.files[a]] = 'import "nowhere/%s.pn";\n' % name + files[sp.files[a]]
        elif m == "syntax_error":
            b = rng.randrange(sp.k)
            t = files[sp.files[b]]
            pos = [j for j, c in enumerate(t) if c in ";{})"]
            if pos:
                j = rng.choice(pos)
                files[sp.files[b]] = t[:j] + t[j + 1:]
        elif m == "cyclic_consts":
            b = rng.randrange(sp.k)
            files[sp.files[b]] += "\nconst CYA: i32 = CYB + 1;\nconst CYB: i32 = CYC + CYD;\nconst CYC: i32 = CYA + 1;\nconst CYD: i32 = CYC * 2;\n"
        elif m == "cyclic_structs":
            b = rng.randrange(sp.k)
            files[sp.files[b]] += "\nstruct CyA\n{\n\tb: CyB,\n\tc: CyC,\n}\n\nstruct CyB\n{\n\tc: CyC,\n}\n\nstruct CyC\n{\n\ta: CyA,\n}\n"
        elif m == "cyclic_struct_const":
            b = rng.randrange(sp.k)
            files[sp.files[b]] += ("\nconst CYHEAD: usize = 2;\nconst CYALIGN: usize = 4;\nconst CYSIZE: usize = CYHEAD + |:CyPacket| + CYALIGN + CYTAIL;\n"
                                   "const CYTAIL: usize = CYSIZE + 1;\n\nstruct CyPacket\n{\n\tpayload: [CYSIZE]u8,\n\ttail: [CYTAIL]u8,\n}\n")
        elif m == "multibyte_then_error":
            b = rng.randrange(sp.k)
            ch = rng.choice(["é", "€", "😀", "ß字", "日本語", "字"])      # half of them two columns wide
            files[sp.files[b]] += ('\nfn zz_mb()\n{\n\tprint!("h%sllo %s", zz_missing_one);\n\tvar q = "%s%s"; var r = zz_missing_two;\n'
                                   '\tvar u = "http://x // not a comment %s"; var t = zz_missing_three; // %s "tail"\n}\n' % (ch, ch, ch, ch, ch, ch))
        elif m == "lints_in_two_files":
            # a lint located in an imported file (truncated literal in a pub
            # constant) next to lints of the importer's own
            b = rng.choice(tgts)
            files[sp.files[b]] += "\npub const ZZ_WIDE: u8 = 256;\npub const ZZ_WIDER: i8 = 0x1_00;\n"
            files[sp.files[a]] += ("\nfn zz_linty() -> i32\n{\n\tvar x = 33;\n\tvar t: u8 = 300;\n\tif x == 50\n\t{\n\t\tloop;\n\t}\n"
                                   "\tif x == 100\n\t{\n\t\tloop;\n\t}\n\treturn: x\n}\n")
        elif m == "hex_separator_then_error":
            b = rng.randrange(sp.k)
            files[sp.files[b]] += ("\nfn zz_hex()\n{\n\tvar q: u32 = 0x1_00_00 + zz_missing_hex;\n\tvar r: u8 = 0xf_f + 0b1_0 + 1_0 + zz_missing_bin;\n}\n")
        elif m == "deep_nesting":
            # valid, but deep: many statements with 20 levels of parentheses in every module
            for b in range(sp.k):
                body = "".join("\tvar d%d = %s%d%s;\n" % (j, "(" * 20, j % 9, ")" * 20) for j in range(120))
                files[sp.files[b]] += "\nfn zz_deep%d()\n{\n%s}\n" % (b, body)
        elif m == "lexical_error_in_name_position":
            b = rng.randrange(sp.k)
            bad = rng.choice(["12abc", "'ab'", "\"open", "\\", "1_2x", "$"])
            files[sp.files[b]] += "\nfn zz_names()\n{\n\tvar\n\t\t%s = 1;\n}\n\nfn\n%s()\n{\n}\n" % (bad, bad)
        elif m == "skipped_declarations":
            # several gotos to one label with declarations in between: the
            # diagnostic names the goto, the declaration and the label
            b = rng.randrange(sp.k)
            files[sp.files[b]] += ("\nfn zz_skip(n: i32) -> i32\n{\n\tvar total = 0;\n\tif n == 1\n\t{\n\t\tgoto zz_after;\n\t}\n\tvar late: i32 = n * 2;\n"
                                   "\tif n == 2\n\t{\n\t\tgoto zz_after;\n\t}\n\tvar later: i32 = n * 3;\n\tif n == 3\n\t{\n\t\tgoto zz_after;\n\t}\n"
                                   "\ttotal = late + later;\n\tzz_after:\n\ttotal = total + late + later;\n\treturn: total\n}\n")
        elif m == "long_line_then_error":
            # diagnostics at the end of a 2 000-character line, after tabs and multi-byte text, with two labels on that line
            b = rng.randrange(sp.k)
            pad = " + ".join(["1"] * 600)
            files[sp.files[b]] += ('\nfn zz_long()\n{\n\tvar s = "\u00e9\u00e9\t\u20ac"; var q: i32 = %s + zz_missing_far_right;\n'
                                   '\tvar t: u8 = %s + true;\n}\n' % (pad, pad))
        elif m == "same_pub_fn_in_two_modules":
            # two definitions with external linkage, in modules that need not import each other
            two = rng.sample(range(sp.k), 2) if sp.k >= 2 else [0, 0]
            for b in two:
                files[sp.files[b]] += "\npub fn zz_same(a: i32) -> i32\n{\n\treturn: a + %d\n}\n" % b
        elif m == "long_type_name":
            # diagnostics that quote a type with a very long name (and a nested array of pointers to it)
            b = rng.randrange(sp.k)
            long = "ZzAStructureWhoseNameGoesOnForMoreThanFortyCharacters"
            files[sp.files[b]] += ("\nstruct %s\n{\n\tv: i32,\n}\n\nfn zz_long_type()\n{\n\tvar s = %s { v: 1 };\n\tvar q: i32 = s;\n"
                                   "\tvar a: [3][2]&&%s;\n\tvar r: bool = a;\n}\n" % (long, long, long))
        elif m == "same_missing_member_twice":
            # a member that was renamed without its uses: the same complaint at several places
            b = rng.randrange(sp.k)
            files[sp.files[b]] += ("\nstruct ZzRenamed\n{\n\tcount: i32,\n}\n\nfn zz_uses(r: ZzRenamed) -> i32\n{\n\tvar a = r.total;\n\tvar b = r.total + 1;\n"
                                   "\tvar c = r.totl;\n\treturn: r.total\n}\n")
        elif m == "illegal_return_type_in_imported":
            # an error in the head of an imported function: found while the importer is compiled, located in the imported file
            b = rng.choice(tgts)
            files[sp.files[b]] += "\npub fn zz_table(n: i32) -> [4]i32\n{\n\tvar t: [4]i32 = [n, n, n, n];\n\treturn: t\n}\n"
            if names and names[0] == sp.files[b] and len(names) > 1:
                names.append(names.pop(0))      # the importer first
        elif m == "array_length_above_u32":
            # a length the back end cannot represent: refused, but by which diagnostic?
            b = rng.randrange(sp.k)
            files[sp.files[b]] += "\nfn zz_big(buffer: &[5000000000]u8) -> u8\n{\n\treturn: buffer[0]\n}\n"
        elif m == "imported_file_not_passed":
            # the imported file is there, next to its importer, but not on the command line
            b = rng.choice(tgts)
            if sp.files[b] in names and len(names) > 1:
                names.remove(sp.files[b])
        elif m == "triple_duplicate":
            b = rng.randrange(sp.k)
            files[sp.files[b]] += ("\nfn zz_tri()\n{\n}\n\nfn zz_tri()\n{\n}\n\nfn zz_tri()\n{\n}\n\nconst ZZ_TRI: i32 = 1;\nconst ZZ_TRI: i32 = 2;\nconst ZZ_TRI: i32 = 3;\n"
                                   "\nfn zz_tri_labels(n: i32) -> i32\n{\n\tvar r = n;\n\tagain:\n\tr = r + 1;\n\tagain:\n\tr = r + 2;\n\tagain:\n\treturn: r\n}\n"
                                   "\nfn zz_tri_vars() -> i32\n{\n\tvar t = 1;\n\tvar t = 2;\n\tvar t = 3;\n\treturn: t\n}\n")
        elif m == "undefined_in_two_modules":
            for b in range(min(2, sp.k)):
                files[sp.files[b]] += "\nfn zz_undef%d() -> i32\n{\n\treturn: missing_thing_%d\n}\n" % (b, b)
    if rng.random() < 0.3:
        rng.shuffle(names)
    if rng.random() < (0.12 if mistakes else 0.4):
        # the same file given twice on the command line (more often when nothing else is wrong with the set)
        names.insert(rng.randrange(len(names) + 1), rng.choice(names))
        mistakes.append("duplicate_argument")
    enc = {k: v.encode() for k, v in files.items()}
    max_imports = max(len(sp.imports[m]) for m in range(sp.k))
    return {"id": "gen:%d" % i, "files": enc, "order": names, "kind": "generated", "mistakes": mistakes,
            "max_imports": max_imports, "run_seed": run_seed(seed, TAG_GEN, i)}


ZOO_EXPR = ["7", "x", "cast y", "cast y as i32", "y as i32", "|a|", "a[1]", "s.m", "&x", "zf(x)", "-x", "!b", "[1, 2]",
            "Zs { m: 2, arr: [0, 0, 0] }", '"text"', "'c'", "true", "x + y", "(x)", "a", "s", "p", "0xff", "1u64",
            "x << y", "x & 1", "cast y == cast z", "s.arr[1]", "|:Zs|", "zf(cast y)", "0x1_00_00", "0b1_0_1u8 + nope",
            "[true, 1]", "[1u8, 1u16]", '["ab", "cde"]']
ZOO_CTX = [
    "if %s == 1\n\t{\n\t\tx = 2;\n\t}",
    "if %s == cast b\n\t{\n\t\tx = 2;\n\t}",
    "var v: bool = %s;",
    "%s = 1;",
    "var v = zf(%s, %s);",
    "var v = %s[0];",
    "var v = %s.nothing;",
    "var v = |%s|;",
    "var v = %s + b;",
    "var v: &i32 = %s;",
    "var v = &%s;",
    "var v = %s as Zs;",
    "var v = cast %s as [3]i32;",
    "var v: u8 = %s; var w: i64 = v;",
    "zf(%s) = %s;",
    "var v: &u32 = %s as &u32;",
    "var v = %s as &u8;",
    "var v: &[]u8 = cast %s;",
    "var v = %s as u64 as i8 as bool;",
    "var v: [2]i32 = %s;",
    "var q: &i32 = &x; q = &%s;",
    "var q: &i32 = &x; &q = %s;",
    "var q: &&i32 = &&p; &&q = &%s;",
    "var v = %s;",
    "var n = 0x1; n = &%s;",
    # a call whose first argument is coerced (array to view): which argument is blamed?
    "var v = zg(a, %s, 7);",
    "var v = zg(a, true, %s);",
    "var v: [3]i32 = [1, 2, %s];",
    # two-column characters in front of the label, on the same line
    'var w = "\u65e5\u672c\u8a9e"; var v: bool = %s;',
    'var w = "\U0001f600 \u5b57"; var v = %s.nothing;',
]


def zoo_sets(step):
    """A combinatorial zoo of small erroneous programs: every expression form
    in every context that can draw a diagnostic, so that spans and report
    rendering are exercised over many label shapes."""
    sets = []
    k = 0
    for ci, ctx in enumerate(ZOO_CTX):
        for ei, ex in enumerate(ZOO_EXPR):
            k += 1
            if k % step:
                continue
            stmt = ctx.replace("%s", ex)
            text = ("struct Zs\n{\n\tm: i32,\n\tarr: [3]i32,\n}\n\nfn zf(q: i32) -> i32\n{\n\treturn: q\n}\n\n"
                    "fn zg(xs: []i32, flag: bool, n: i32) -> i32\n{\n\treturn: n\n}\n\n"
                    "fn main() -> i32\n{\n\tvar x: i32 = 1;\n\tvar y: u8 = 2;\n\tvar z: u8 = 3;\n\tvar b: bool = true;\n"
                    "\tvar a: [3]i32 = [1, 2, 3];\n\tvar s = Zs { m: 1, arr: [1, 2, 3] };\n\tvar p: &i32 = &x;\n\t"
                    + stmt + "\n\treturn: 0\n}\n")
            zs = {"id": "zoo:%d:%d" % (ci, ei), "files": {"zoo.pn": text.encode()}, "order": ["zoo.pn"], "kind": "zoo"}
            if ctx.startswith("var v = zg(a, "):
                zs["blamed_argument"] = ex      # the other arguments are right: a complaint about an argument is about this one
            sets.append(zs)
    return sets


MULTIBYTE = ["é", "€", "😀", "ß", " ", "字"]


def mutated_set(seed, i, corpus):
    rng = rng_for(seed, TAG_MUT, i)
    base = corpus[rng.randrange(len(corpus))]
    name = base["order"][0]
    data = base["files"][name]
    ops = []
    for _ in range(rng.randint(1, 3)):
        op = rng.choice(["byte", "delete", "dup_line", "drop_line", "multibyte", "crlf", "truncate", "truncate_clean", "trailing_backslash", "token_swap", "insert_token", "decorate", "decorate", "bom", "odd_line_breaks"])
        ops.append(op)
        if not data:
            break
        if op == "byte":
            j = rng.randrange(len(data))
            data = data[:j] + bytes([rng.choice(b"(){}[];:,.&|=+-*/%<>!\"'_ 0aZ\t\n")]) + data[j + 1:]
        elif op == "delete":
            j = rng.randrange(len(data))
            n = rng.randint(1, 6)
            data = data[:j] + data[j + n:]
        elif op in ("dup_line", "drop_line"):
            lines = data.split(b"\n")
            j = rng.randrange(len(lines))
            if op == "dup_line":
                lines.insert(j, lines[j])
            else:
                del lines[j]
            data = b"\n".join(lines)
        elif op == "multibyte":
            try:
                text = data.decode()
            except UnicodeDecodeError:
                continue
            j = rng.randrange(len(text) + 1)
            data = (text[:j] + rng.choice(MULTIBYTE) + text[j:]).encode()
        elif op == "crlf":
            data = data.replace(b"\r\n", b"\n").replace(b"\n", b"\r\n")
        elif op == "odd_line_breaks":
            # characters that some tools take for line ends, in comments (legal anywhere): the
            # compiler's lines end at line feeds only
            lines = data.split(b"\n")
            for _k in range(rng.randint(1, 3)):
                j = rng.randrange(len(lines))
                ch = rng.choice(["\x0c", "\x0b", "\x85", "\u2028", "\u2029", "\r"])
                lines[j] = lines[j] + (" // page%sbreak" % ch).encode()
            data = b"\n".join(lines)
        elif op == "bom":
            if not data.startswith(b"\xef\xbb\xbf"):
                data = b"\xef\xbb\xbf" + data
        elif op == "truncate":
            j = rng.randrange(len(data))
            data = data[:j]
        elif op == "truncate_clean":
            # end of file right after a token, no trailing newline
            j = rng.randrange(len(data))
            data = data[:j].rstrip()
        elif op == "trailing_backslash":
            # the file ends inside a string literal, right after a backslash
            quotes = [j for j, c in enumerate(data) if c == 0x22]
            if quotes:
                q = rng.choice(quotes)
                data = data[:q + 1] + rng.choice([b"", b"Is ", b"a b"]) + b"\\"
        elif op == "decorate":
            # unusual but valid layout in front of whatever the file has to say:
            # comments with multi-byte characters and quotes, trailing blanks,
            # tab/space indentation, blank lines with whitespace
            try:
                lines = data.decode().split("\n")
            except UnicodeDecodeError:
                continue
            out = []
            for line in lines:
                r = rng.random()
                if r < 0.15:
                    out.append(rng.choice(["// ünïcödé \"quoted\" 'c' \\ €", "\t \t", "//字字字 // nested", "   // tabs\tinside\there"]))
                if r > 0.6 and line.strip() and '"' not in line and "'" not in line and not line.rstrip().endswith("\\"):
                    line = line + rng.choice(["  ", "\t", " // é€😀 \"x", "\t// 'q' //"])
                if r > 0.85:
                    line = line.replace("\t", "    ")
                out.append(line)
            data = "\n".join(out).encode()
            if rng.random() < 0.3:
                data = data.rstrip(b"\n")
            if rng.random() < 0.35:
                data = data.replace(b"\r\n", b"\n").replace(b"\n", b"\r\n")
        elif op == "token_swap":
            toks = re.split(rb"(\s+)", data)
            if len(toks) > 4:
                a, b = rng.sample(range(0, len(toks), 2), 2)
                toks[a], toks[b] = toks[b], toks[a]
                data = b"".join(toks)
        elif op == "insert_token":
            j = rng.randrange(len(data) + 1)
            data = data[:j] + rng.choice([b" fn ", b" var ", b" loop; ", b" goto ", b"&", b"|:", b" as ", b" 1e ", b"0x", b'"', b"'"]) + data[j:]
    files = dict(base["files"])
    files[name] = data
    return {"id": "mut:%d:%s" % (i, base["id"]), "files": files, "order": list(base["order"]), "kind": "mutated", "ops": ops,
            "run_seed": run_seed(seed, TAG_MUT, i)}


# ---------------------------------------------------------------- running --
def one_run(wd, order, entropy, clock, pid, opts, env_extra=None, stdout_file=False, aslr=False, out_dir=True, exe=None, arte_norm=None):
    env = sim_env(base_env(env_extra), entropy=entropy, clock=clock, pid=pid)
    shutil.rmtree(os.path.join(wd, "out"), ignore_errors=True)
    argv = [exe or PENNE, "emit"] + (["--out-dir", "out"] if out_dir else []) + list(opts) + list(order)
    r = run_proc(argv, wd, env, stdout_to=os.path.join(wd, "stdout.txt") if stdout_file else None, aslr=aslr)
    arte = {}
    od = os.path.join(wd, "out")
    if os.path.isdir(od):
        for dp, _d, names in sorted(os.walk(od)):
            for n in sorted(names):
                p = os.path.join(dp, n)
                with open(p, "rb") as f:
                    data = f.read()
                arte[os.path.relpath(p, od)] = sha(arte_norm(data) if arte_norm else data)
    return r, arte


class FifoFeeder:
    """Puts a named pipe where a source file was and feeds it the file's bytes
    when (and if) the compiler opens it. The thread decides nothing: the bytes
    and their order are fixed; it only waits for a reader."""

    def __init__(self, path, data):
        import threading
        self.path, self.data = path, data
        self.done = threading.Event()
        os.unlink(path)
        os.mkfifo(path)
        self.thread = threading.Thread(target=self._run, daemon=True)
        self.thread.start()

    def _run(self):
        fd = None
        while not self.done.is_set():
            try:
                fd = os.open(self.path, os.O_WRONLY | os.O_NONBLOCK)
                break
            except OSError:
                time.sleep(0.001)
        if fd is None:
            return
        try:
            os.set_blocking(fd, True)
            view = memoryview(self.data)
            while len(view):
                n = os.write(fd, view[:65536])
                view = view[n:]
        except OSError:
            pass
        finally:
            os.close(fd)

    def stop(self):
        self.done.set()
        self.thread.join(timeout=5)


def verdict_of(r):
    """Byte-exact observation, except that a panic of the compiler itself is
    compared as `panic@file:line` (the runtime prints the OS thread id)."""
    if r.timeout:
        return ("timeout",)
    m = PANIC_RE.search(r.err)
    if r.rc == 101 and m:
        return ("panic", m.group(1).decode(errors="replace"))
    return (r.status(), sha(r.out), sha(r.err))


def headers_of(r):
    text = ANSI.sub(b"", r.err).decode(errors="replace")
    return CODE.findall(text)


def evaluate_set(s, wd, cfg, rng, stats):
    fresh_dir(wd)
    write_files(wd, s["files"])
    order = s["order"]
    viol = []
    seeds = [rng.getrandbits(64) for _ in range(cfg["seeds"])]

    def sim_params():
        return (rng.randrange(10**9, 2 * 10**18), rng.choice([1, 1000, 10**6, 10**9])), rng.randrange(2, 4_000_000)

    base_opts = ["--color=never", "--arrows=ascii"]
    # D1: entropy / clock / pid vary, everything else fixed
    obs = []
    for e in seeds:
        clock, pid = sim_params()
        r, arte = one_run(wd, order, e, clock, pid, base_opts)
        stats["runs"] += 1
        obs.append((e, verdict_of(r), arte, r))
    first = obs[0]
    panicked = first[1][0] == "panic"
    if panicked:
        stats["compiler_panics"] += 1
    for e, v, arte, r in obs[1:]:
        if v != first[1]:
            cls = "nondeterministic_verdict" if v[0] != first[1][0] else "nondeterministic_diagnostics"
            viol.append((cls, "entropy %d -> %s, entropy %d -> %s\n--- stderr A\n%s\n--- stderr B\n%s" %
                         (first[0], first[1], e, v, first[3].err.decode(errors="replace")[-700:], r.err.decode(errors="replace")[-700:]),
                         {"entropies": [first[0], e]}))
            break
        if arte != first[2]:
            diff = sorted(k for k in set(arte) | set(first[2]) if arte.get(k) != first[2].get(k))
            viol.append(("nondeterministic_ir", "IR files %s differ between entropy %d and %d" % (diff, first[0], e),
                         {"entropies": [first[0], e]}))
            break
    # D1 again with --verbose (token, AST and IR dumps go to stdout)
    if stats["sets"] % cfg.get("verbose_every", 3) == 0 and len(seeds) >= 2:
        vobs = []
        for e in seeds[:2]:
            clock, pid = sim_params()
            r, arte = one_run(wd, order, e, clock, pid, base_opts + ["--verbose"], out_dir=False)
            stats["runs"] += 1
            stats["verbose_runs"] = stats.get("verbose_runs", 0) + 1
            vobs.append((e, verdict_of(r), r))
        if vobs[0][1] != vobs[1][1]:
            a, b = vobs[0][2].out, vobs[1][2].out
            k = next((i for i in range(min(len(a), len(b))) if a[i] != b[i]), min(len(a), len(b)))
            viol.append(("nondeterministic_verbose_output", "--verbose output differs between entropy %d and %d at byte %d: %r vs %r" %
                         (vobs[0][0], vobs[1][0], k, a[max(0, k - 60):k + 60], b[max(0, k - 60):k + 60]), {"entropies": [vobs[0][0], vobs[1][0]]}))
    base_r = first[3]
    stats["base_stderr"] = base_r.err.decode(errors="replace") if base_r.rc == 1 else None
    base_heads = headers_of(base_r)
    stats["diag_lists"].add(tuple(base_heads))
    if base_heads:
        stats["sets_with_diagnostics"] += 1
    # D2: environments, --color=never: identical bytes
    envs = [({"TERM": "xterm-256color"}, False), ({"TERM": "dumb", "NO_COLOR": "1"}, True), ({"CLICOLOR_FORCE": "1", "TERM": "xterm"}, False)]
    for env_extra, to_file in envs[:2 if cfg["seeds"] <= 3 else 3]:
        clock, pid = sim_params()
        r, arte = one_run(wd, order, seeds[0], clock, pid, base_opts, env_extra=env_extra, stdout_file=to_file)
        stats["runs"] += 1
        v = verdict_of(r)
        if v != first[1] or arte != first[2]:
            viol.append(("environment_dependent_output", "env %s stdout_file=%s -> %s, baseline -> %s" % (env_extra, to_file, v, first[1]),
                         {"env": env_extra}))
            break
    # D2b: everything around the inputs differs at once - another (deeper)
    # current directory, other file times and modes, clutter next to the
    # sources, another name of the executable, other HOME / TMPDIR / COLUMNS /
    # locale: compilation is a function of its inputs only
    if not viol:
        wd2 = os.path.join(wd, "elsewhere", "a rather long directory name \u00e9")
        fresh_dir(wd2)
        write_files(wd2, s["files"])
        for k, n in enumerate(sorted(s["files"])):
            p = os.path.join(wd2, n)
            try:
                os.utime(p, (k * 86400, (2**31 - 1) if k % 2 else 86400 * (k + 1)))
                os.chmod(p, 0o400 if k % 2 else 0o664)
            except OSError:
                pass
        clutter = {"penne.toml": b'backend = "false"\nwasm = true\n', "Penne.toml": b"wasm = true\n", ".penne.toml": b"][",
                   "config.toml": b'backend_args = "-x"\n', "zz_clutter.pn": b"fn fn fn {{{ \"", "main.pn.ll": b"; stale\n"}
        for n, data in clutter.items():
            if n not in s["files"] and not os.path.exists(os.path.join(wd2, n)):
                with open(os.path.join(wd2, n), "wb") as f:
                    f.write(data)
        os.makedirs(os.path.join(wd2, "bin2"), exist_ok=True)
        alias = os.path.join(wd2, "bin2", "pn")
        os.symlink(PENNE, alias)
        os.makedirs(os.path.join(wd2, "tmp2"), exist_ok=True)
        env_extra = {"HOME": "/nonexistent", "TMPDIR": os.path.join(wd2, "tmp2"), "COLUMNS": "31", "LINES": "7", "LANG": "tr_TR.UTF-8",
                     "LC_ALL": "C", "USER": "someone", "TERM": "vt100", "PENNE_BACKEND": "/nonexistent/backend", "PENNE_LLI": "/nonexistent/lli",
                     "TZ": "Pacific/Kiritimati", "CARGO_MANIFEST_DIR": "/nonexistent", "PWD": wd2}
        clock, pid = sim_params()
        r, arte = one_run(wd2, order, seeds[0], clock, pid, base_opts, env_extra=env_extra, exe=alias)
        stats["runs"] += 1
        stats["ambient_runs"] = stats.get("ambient_runs", 0) + 1
        v = verdict_of(r)
        if v != first[1] or arte != first[2]:
            viol.append(("environment_dependent_output", "another current directory, file times, clutter, executable name and environment -> %s, baseline -> %s\n--- stderr there\n%s\n--- stderr baseline\n%s" %
                         (v, first[1], r.err.decode(errors="replace")[-600:], first[3].err.decode(errors="replace")[-600:]), {"ambient": True}))
        shutil.rmtree(os.path.join(wd, "elsewhere"), ignore_errors=True)
    # D2c: the same bytes reaching the compiler in another way - an equivalent
    # spelling of the path (`a//b.pn`, `a/./b.pn`), an absolute path, a named
    # pipe instead of a regular file: only the printed name may change
    if not viol and not panicked:
        plain = [n for n in order if ":" not in n]
        kinds = []
        if any("/" in n for n in plain):
            kinds.append("spelling")
        if len(s["files"]) == 1 and len(order) == 1 and plain:
            kinds.append("absolute")
        if plain and all(n in s["files"] for n in plain) and len(set(order)) == len(order):
            kinds.append("fifo")    # (a pipe can be read once: not when a file is named twice)
        sel = stats["sets"]
        kind = kinds[sel % len(kinds)] if kinds else None
        if cfg.get("force_delivery"):
            # replay / minimisation: the variation that was recorded, not the one the index would pick
            kind, sel = cfg["force_delivery"]
            kind = kind if kind in kinds else None
        if kind:
            wd3 = os.path.join(wd, "again")
            fresh_dir(wd3)
            write_files(wd3, s["files"])
            pairs = []
            order3 = list(order)
            feeder = None
            if kind == "spelling":
                sep = "//" if sel % 2 else "/./"
                order3 = [n.replace("/", sep, 1) if (":" not in n and "/" in n) else n for n in order]
                pairs = [(b.encode(), a.encode()) for a, b in zip(order, order3) if a != b]
            elif kind == "absolute":
                order3 = [os.path.join(wd3, n) if ":" not in n else n for n in order]
                pairs = [((wd3 + "/").encode(), b"")]
            else:
                victim = plain[sel % len(plain)]
                feeder = FifoFeeder(os.path.join(wd3, victim), s["files"][victim])
            clock, pid = sim_params()

            def unspell(data):
                for a, b in pairs:
                    data = data.replace(a, b)
                return data
            try:
                r, arte = one_run(wd3, order3, seeds[0], clock, pid, base_opts, out_dir=(kind != "absolute"), arte_norm=unspell)
            finally:
                if feeder:
                    feeder.stop()
            stats["runs"] += 1
            stats["delivery_runs"] = stats.get("delivery_runs", 0) + 1
            out3, err3 = unspell(r.out), unspell(r.err)
            v = (r.status(), sha(out3), sha(err3))
            base_v = first[1]
            if kind == "absolute":
                # without --out-dir the artefact announcement differs; diagnostics and verdict are compared
                v = (v[0], v[2])
                base_v = (first[1][0], first[1][2])
            if v != base_v or (kind != "absolute" and arte != first[2]):
                viol.append(("environment_dependent_output", "%s delivery of the same bytes (%s) -> %s, baseline -> %s\n--- stderr there\n%s\n--- stderr baseline\n%s" %
                             (kind, order3, v, base_v, err3.decode(errors="replace")[-600:], first[3].err.decode(errors="replace")[-600:]), {"delivery": [kind, sel]}))
            shutil.rmtree(wd3, ignore_errors=True)
    # D3: rendering in every colour x charset configuration
    if stats["sets"] % cfg["d3_every"] == 0 or panicked:
        clock, pid = sim_params()
        rs, _ = one_run(wd, order, seeds[0], clock, pid, ["--silent"])
        stats["runs"] += 1
        src_chars = set()
        for data in s["files"].values():
            src_chars |= set(data.decode(errors="replace"))
        rendered_text = {}
        for color in ("auto", "always", "never"):
            for arrows in ("unicode", "ascii"):
                clock, pid = sim_params()
                env_extra = {"TERM": "xterm-256color"} if color == "auto" else None
                r, _ = one_run(wd, order, seeds[0], clock, pid, ["--color=" + color, "--arrows=" + arrows], env_extra=env_extra)
                stats["runs"] += 1
                stats["render_configs"] += 1
                where = "--color=%s --arrows=%s" % (color, arrows)
                rendered_text[(color, arrows)] = (ANSI.sub(b"", r.out), ANSI.sub(b"", r.err), r.err)
                if r.status() != rs.status():
                    viol.append(("render_failure", "%s exits %s but --silent exits %s\n%s" % (where, r.status(), rs.status(), r.err.decode(errors="replace")[-500:]), {}))
                    continue
                if panicked:
                    continue    # compile-stage panic, identical with --silent: C02's domain
                if headers_of(r) != base_heads:
                    viol.append(("render_differs", "%s shows codes %s, baseline %s" % (where, headers_of(r), base_heads), {}))
                if color == "never" and (ESC in r.out or ESC in r.err):
                    viol.append(("color_never_has_escape", where, {}))
                if color == "never" and arrows == "ascii":
                    text = (r.out + r.err).decode(errors="replace")
                    bad = sorted({c for c in text if ord(c) > 127 and c not in src_chars and c != "�"})
                    if bad:
                        viol.append(("ascii_arrows_has_non_ascii", "%s prints %r" % (where, bad[:8]), {}))
    # colour only colours: without the escape sequences a coloured report is the colourless one,
    # and every coloured line ends with the colour switched off
    if 'rendered_text' in dir() and not panicked:
        for arrows in ("unicode", "ascii"):
            a, n = rendered_text.get(("always", arrows)), rendered_text.get(("never", arrows))
            if a and n and (a[0], a[1]) != (n[0], n[1]):
                k = next((i for i in range(min(len(a[1]), len(n[1]))) if a[1][i] != n[1][i]), min(len(a[1]), len(n[1])))
                viol.append(("colour_changes_text", "--arrows=%s: the coloured report minus its escape sequences is not the colourless report, at byte %d of stderr: %r vs %r" %
                             (arrows, k, a[1][max(0, k - 60):k + 40], n[1][max(0, k - 60):k + 40]), {}))
                break
            if a:
                for line in a[2].split(b"\n"):
                    last = None
                    for m in ANSI.finditer(line):
                        last = m.group(0)
                    if last is not None and last not in (b"\x1b[0m", b"\x1b[m"):
                        viol.append(("colour_left_switched_on", "--arrows=%s: a line of the coloured report ends with the colour still on: %r" % (arrows, line[-120:]), {}))
                        break
    # the source lines a report quotes are the lines of the source (tabs shown as four blanks)
    if not panicked and base_r.rc == 1:
        qtexts = {}
        for n_, data in s["files"].items():
            try:
                qtexts[n_] = data.decode().split("\n")
            except UnicodeDecodeError:
                qtexts[n_] = None
        cur = None
        for line in base_r.err.decode(errors="replace").split("\n"):
            hm = re.match(r"^\s*(?:,-|\|-)\[ ?([^\]\s]+):\d+:\d+ ?\]", line)
            if hm:
                cur = hm.group(1)
                continue
            qm = re.match(r"^\s*(\d+) \| (.*)$", line)
            if qm and cur in qtexts and qtexts[cur] is not None:
                ln = int(qm.group(1))
                if 1 <= ln <= len(qtexts[cur]):
                    want = qtexts[cur][ln - 1].rstrip("\r")
                    stats["quoted_lines_checked"] = stats.get("quoted_lines_checked", 0) + 1
                    # (tabs are shown as blanks up to the next tab stop: compared modulo runs of blanks)
                    # and after the arrows of multi-line labels, which stand in front of the text)
                    # (a colourless-ASCII rendering may show `?` for a character that is not ASCII)
                    got_q = " ".join(qm.group(2).split())
                    want_q = " ".join(want.split())
                    if not got_q.endswith(want_q) and not got_q.endswith("".join(c if ord(c) < 128 else "?" for c in want_q)) and "\x0b" not in want and "\x0c" not in want:
                        viol.append(("quoted_line_differs_from_source", "%s line %d is quoted as %r but reads %r" % (cur, ln, qm.group(2)[:120], want[:120]), {}))
                        break
    # the baseline run of every set is colourless ASCII
    if not panicked and (ESC in base_r.out or ESC in base_r.err):
        viol.append(("color_never_has_escape", "--color=never --arrows=ascii (the baseline run): an escape sequence in the output: %r" %
                     (base_r.err + base_r.out)[max(0, (base_r.err + base_r.out).find(ESC) - 40):(base_r.err + base_r.out).find(ESC) + 40], {}))
    # every report has a code: no bare `Advice:` / `Warning:` / `Error:` report next to the coded ones
    if not panicked:
        for line in base_r.err.decode(errors="replace").split("\n"):
            if re.match(r"^(Advice|Warning): ", line) or (line.startswith("Error: ") and base_heads and not line.startswith(("Error: compilation failed", "Error: Failed", "Error: No such", "Error: cannot", "Error: out of range integral"))):
                viol.append(("report_without_code", "a report without a code: %r" % line[:160], {}))
                break
    # a failing compilation says why in a diagnostic of its own: a code from the catalogue
    # (not a bare message of a library underneath, without code or location)
    # (the tool's own top-level `Error: ...` lines - unreadable input and the like - are C18's business)
    if not panicked and base_r.rc == 1 and not base_heads and not base_r.timeout and \
            (b"Error: " not in base_r.err or b"Error: compilation failed" in base_r.err or b"Error: out of range integral type conversion" in base_r.err):
        viol.append(("failure_without_code", "exit 1 and no diagnostic with a code on stderr: %r" % base_r.err.decode(errors="replace")[-300:], {}))
    if len(set(order)) < len(order) and not panicked:
        # a file given twice: with --out-dir the second artefact is refused first; without it the
        # modules go all the way to the linker
        clock, pid = sim_params()
        r2, _ = one_run(wd, order, seeds[0], clock, pid, base_opts, out_dir=False)
        stats["runs"] += 1
        if r2.rc == 1 and not headers_of(r2) and (b"Error: " not in r2.err or b"Error: compilation failed" in r2.err):
            viol.append(("failure_without_code", "without --out-dir: exit 1 and no diagnostic with a code on stderr: %r" % r2.err.decode(errors="replace")[-300:], {}))
    # rendering must find every source it quotes
    for r in [x[3] for x in obs[:1]]:
        if b"Unable to fetch source" in r.err:
            m = re.search(rb"Unable to fetch source[^\n]*", r.err)
            viol.append(("source_fetch_failed", "the report could not quote a source file: %s" % m.group(0).decode(errors="replace")[:200], {}))
    # D4: locations (rendered primary header)
    if not panicked and base_r.rc == 1:
        text = base_r.err.decode(errors="replace")
        texts = {}
        for n, data in s["files"].items():
            try:
                texts[n] = data.decode()
            except UnicodeDecodeError:
                texts[n] = None
        for fn, line, col in HDR.findall(text):
            stats["locations_checked"] += 1
            if fn.startswith("core:") or fn.startswith("vendor:"):
                continue
            if fn not in texts:
                viol.append(("location_outside_inputs", "diagnostic names %s which is not an input (%s)" % (fn, sorted(texts)), {}))
                continue
            t = texts[fn]
            if t is None:
                continue
            nlines = 1 + t.count("\n")
            if int(line) < 1 or int(line) > nlines:
                viol.append(("location_line_out_of_range", "%s:%s:%s but the file has %d lines" % (fn, line, col, nlines), {}))
    seen = {}
    for c, d, extra in viol:
        seen.setdefault(c, (d, extra))
    return [(c, d, extra) for c, (d, extra) in seen.items()]


def check_locations_structured(s, wd, stats):
    """D4 on the structured diagnostics (every Location of every Error),
    through pworker: span inside the file, line_number consistent with span."""
    texts = {}
    for n, data in s["files"].items():
        try:
            texts[n] = data.decode()
        except UnicodeDecodeError:
            return []
    order = [n for n in s["order"] if n in texts]
    if len(order) != len(s["order"]):
        return []
    spec = {"groups": [[{"name": n, "source": texts[n]} for n in order]],
            "ops": [{"g": 0, "m": m} for m in range(len(order))], "link": False, "refs": False, "stop_on_error": True,
            "surface_first": True}
    with open(os.path.join(wd, "spec.json"), "w") as f:
        json.dump(spec, f)
    r = run_proc([PWORKER, "history", "spec.json"], wd, sim_env(base_env(), entropy=1))
    stats["runs"] += 1
    viol = []
    # a file given twice: the command-line tool refuses the second artefact (--out-dir) before it
    # analyses the rest, the library goes on - the rendered report and the structured list differ by design
    dup_names = len(set(s["order"])) < len(s["order"])
    starts = set()      # (file, line, column) of the start of every Location of every diagnostic
    label_texts = {}    # (file, line) -> texts under the single-line Locations that start on that line
    seen_errors = set()
    renamed_reports = 0
    dup_blamed = {}
    have_all = True
    for line in r.out.decode(errors="replace").splitlines():
        try:
            rec = json.loads(line)
        except ValueError:
            continue
        for e in (rec.get("errors") or []) + (rec.get("lints") or []):
            # secondary locations, where the language fixes what they point at
            for c2, d2 in seclabels.check(e, texts, stats):
                viol.append((c2, d2))
            # the zoo's calls with one wrong argument: that argument is the one underlined
            if s.get("blamed_argument") and e.startswith(("ArgumentTypeMismatch {", "ArgumentMissingAddress {")):
                _v, ef = seclabels.parse_fields(e)
                got = seclabels.text_at(seclabels.loc_of(ef.get("location")), texts)
                stats["blamed_arguments_checked"] = stats.get("blamed_arguments_checked", 0) + 1
                # (a call is located at its callee's name, a cast at its operand...: a leading part will do)
                if got is not None and not re.search(r"(?<![A-Za-z0-9_])" + re.escape(" ".join(got.split())) + r"(?![A-Za-z0-9_])", " ".join(s["blamed_argument"].split())):
                    viol.append(("wrong_argument_blamed", "the call's wrong argument is %r but the diagnostic underlines %r: %s" % (s["blamed_argument"], got, e[:160])))
            # n declarations of one name: every surplus one is its own place - two reports that blame the
            # same place with different earlier declarations mean one of the places is never blamed
            if e.startswith("DuplicateDeclaration"):
                _v, ef = seclabels.parse_fields(e)
                key = (_v, ef.get("name"), ef.get("location"))
                if key in dup_blamed and dup_blamed[key] != ef.get("previous"):
                    viol.append(("duplicates_blamed_at_one_place", "%s %s: two reports blame the same place with different earlier declarations: %s" % (_v, ef.get("name"), e[:200])))
                dup_blamed.setdefault(key, ef.get("previous"))
            # the three uses of the renamed member (mistake same_missing_member_twice) are three places
            if e.startswith("UndefinedMember {") and 'name_of_member: "total", name_of_structure: "ZzRenamed"' in e:
                _v, ef = seclabels.parse_fields(e)
                seen_errors.add(ef.get("location"))
                renamed_reports += 1
            for fn0, a0, _b0, _ln0, _lo0 in LOC.findall(e):
                t0 = texts.get(fn0)
                if t0 is None:
                    have_all = False
                    continue
                a0 = int(a0)
                if a0 > len(t0):
                    continue
                # line and column the way the compiler itself counts them (`Location`,
                # `line!()`): lines end at a line feed and nowhere else - not at a form
                # feed, vertical tab, NEL, U+2028/2029 or a lone carriage return
                ls = t0.rfind("\n", 0, a0) + 1
                nl = 1 + t0.count("\n", 0, a0)
                starts.add((fn0, nl, a0 - ls + 1))
                if "\n" not in t0[a0:int(_b0)]:
                    label_texts.setdefault((fn0, nl), set()).add(" ".join(t0[a0:int(_b0)].split()))
            for fn, a, b, ln, lo in LOC.findall(e):
                fn = fn.encode().decode("unicode_escape") if "\\" in fn else fn
                stats["locations_checked"] += 1
                if fn not in texts:
                    if not (fn.startswith("core:") or fn.startswith("vendor:")):
                        viol.append(("location_outside_inputs", "Location names %r; inputs %s" % (fn, sorted(texts))))
                    continue
                t = texts[fn]
                a, b, ln = int(a), int(b), int(ln)
                n = len(t)
                if not (0 <= a <= b <= max(n, 1)):
                    viol.append(("span_out_of_file", "%s span %d..%d but the file has %d characters: %s" % (fn, a, b, n, e[:200])))
                    continue
                want = 1 + t[:a].count("\n")
                if ln != want and not (a >= n):
                    viol.append(("span_not_on_reported_line", "%s span %d..%d starts on line %d but line_number=%d: %s" % (fn, a, b, want, ln, e[:200])))
            # lexical diagnostics: the span starts at the character the error is about
            lm = LEXICAL.match(e)
            if lm and lm.group(2) in texts and texts[lm.group(2)] is not None:
                kind, t1, a1, b1 = lm.group(1), texts[lm.group(2)], int(lm.group(3)), int(lm.group(4))
                stats["lexical_spans_checked"] = stats.get("lexical_spans_checked", 0) + 1
                ch = t1[a1:a1 + 1]
                ok = True
                if kind in ("InvalidIntegerTypeSuffix", "InvalidIntegerLength"):
                    ok = ch.isdigit()
                elif kind == "MissingClosingQuote":
                    ok = ch in ("\"", "'")
                elif kind in ("UnexpectedTrailingBackslash", "InvalidEscapeSequence"):
                    ok = ch == "\\"
                elif kind == "InvalidCharLiteral":
                    ok = ch == "'"
                elif kind == "UnexpectedCharacter":
                    ok = b1 - a1 == 1
                if not ok and a1 < len(t1):
                    viol.append(("lexical_span_not_at_offending_text", "%s is located at %r (span %d..%d of %s)" % (kind, t1[a1:b1][:20], a1, b1, lm.group(2))))
            # what the diagnostic has to say must be in the rendered report: a
            # label that ariadne drops (span outside the source) loses it silently
            rendered = stats.get("base_stderr") if not dup_names else None
            if rendered is not None and rec.get("verdict") in ("errors", "surface_errors") and \
                    e.startswith(("UnexpectedEndOfFile {", "UnexpectedToken {")):
                for text in EXPECTATION.findall(e):
                    text = text.encode().decode("unicode_escape") if "\\" in text else text
                    stats["messages_checked"] = stats.get("messages_checked", 0) + 1
                    if text and text not in rendered:
                        viol.append(("message_missing_from_report", "the diagnostic carries %r but the rendered report does not show it: %s" % (text, e[:160])))
            # "covers the offending text", where the diagnostic itself names the text
            for name, fn, a, b in NAMED_LOC.findall(e):
                if fn in texts and texts[fn] is not None:
                    stats["named_spans_checked"] = stats.get("named_spans_checked", 0) + 1
                    got = texts[fn][int(a):int(b)]
                    if name not in got and "\\" not in name:
                        viol.append(("span_does_not_cover_named_text", "%s span %s..%s covers %r but the diagnostic is about %r: %s" %
                                     (fn, a, b, got, name, e[:200])))
    if renamed_reports >= 3 and len(seen_errors) < 3:
        viol.append(("stale_location_for_repeated_use", "the member `total` is missing at three places; %d reports name %d place(s): %s" %
                     (renamed_reports, len(seen_errors), sorted(x or "" for x in seen_errors)[:3])))
    # every `[ file:line:col ]` header of the rendered report is the start of one
    # of the diagnostic's locations (wrong index type, shifted columns)
    rendered = stats.get("base_stderr") if not dup_names else None
    if rendered and have_all and starts and not viol:
        for fn, line, col in HDR.findall(rendered):
            if fn in texts and texts[fn] is not None and (fn, int(line), int(col)) not in starts:
                near = sorted(x for x in starts if x[0] == fn)[:4]
                viol.append(("header_is_no_location", "the report says %s:%s:%s but no location of any diagnostic starts there (locations start at %s)" % (fn, line, col, near)))
                break
    # the underline of a label stands under the text the label is about: counted in
    # terminal columns (wide characters take two, combining ones none)
    if rendered and have_all and label_texts and not viol:
        cur = None
        lines = rendered.split("\n")
        for k, line in enumerate(lines[:-1]):
            hm = re.match(r"^\s*(?:,-|\|-)\[ ?([^\]\s]+):\d+:\d+ ?\]", line)
            if hm:
                cur = hm.group(1)
                continue
            qm = re.match(r"^(\s*\d+ \| )(.*)$", line)
            mm = re.match(r"^(\s*\| )([ ^|\-]*)$", lines[k + 1])
            if not (qm and mm and cur in texts and len(qm.group(1)) == len(mm.group(1))) or "^" not in mm.group(2):
                continue
            wanted = label_texts.get((cur, int(qm.group(1).split()[0])))
            if not wanted:
                continue
            # (a colourless-ASCII rendering may show `?` for a character that is not ASCII)
            wanted = wanted | {"".join(c if ord(c) < 128 else "?" for c in w) for w in wanted}
            cols = []       # display column of every printed character of the quoted line
            c = 0
            for ch in qm.group(2):
                cols.append(c)
                c += 0 if unicodedata.category(ch) in ("Mn", "Me", "Cf") else (2 if unicodedata.east_asian_width(ch) in ("W", "F") else 1)
            for run in re.finditer(r"[\^|\-]*\^[\^|\-]*", mm.group(2)):
                covered = "".join(ch for ch, col in zip(qm.group(2), cols) if run.start() <= col < run.end())
                covered = " ".join(covered.split())
                stats["underlines_checked"] = stats.get("underlines_checked", 0) + 1
                if covered and covered not in wanted and not any(w and (w in covered or covered in w) for w in wanted):
                    viol.append(("underline_not_under_labelled_text", "%s line %s: the underline at columns %d-%d stands under %r, the labels of that line are about %s" %
                                 (cur, qm.group(1).split()[0], run.start(), run.end(), covered, sorted(wanted)[:4])))
                    break
            if viol:
                break
    seen = {}
    for c, d in viol:
        seen.setdefault(c, d)
    return [(c, d, {}) for c, d in seen.items()]


def _job(args):
    seed, idx, s, tier = args
    cfg = TIERS[tier]
    rng = rng_for(seed, "C13/run/" + s["kind"], idx)
    wd = os.path.join(work_root(), "C13", "s%d" % idx)
    stats = {"runs": 0, "compiler_panics": 0, "diag_lists": set(), "sets_with_diagnostics": 0, "render_configs": 0,
             "locations_checked": 0, "sets": idx}
    viol = evaluate_set(s, wd, cfg, rng, stats)
    viol += check_locations_structured(s, wd, stats)
    shutil.rmtree(wd, ignore_errors=True)
    stats["diag_lists"] = sorted(stats["diag_lists"])
    stats.pop("base_stderr", None)
    return {"idx": idx, "id": s["id"], "kind": s["kind"], "violations": viol, "stats": stats,
            "max_imports": s.get("max_imports", len(s["order"]) - 1 if s["kind"] == "corpus_import" else 0)}


def all_sets(seed, tier):
    cfg = TIERS[tier]
    corpus = corpus_sets()
    singles = [c for c in corpus if c["kind"] == "corpus"]
    sets = list(corpus)
    sets += zoo_sets(cfg.get("zoo_step", 1))
    sets += [generated_set(seed, i) for i in range(cfg["generated"])]
    sets += [mutated_set(seed, i, singles) for i in range(cfg["mutated"])]
    return sets


def encode_set(s):
    return {"id": s["id"], "kind": s["kind"], "order": s["order"],
            "files": {k: v.decode("utf-8", errors="surrogateescape") for k, v in s["files"].items()}}


def decode_set(d):
    return {"id": d["id"], "kind": d["kind"], "order": d["order"],
            "files": {k: v.encode("utf-8", errors="surrogateescape") for k, v in d["files"].items()}}


def minimise_set(s, cls, tier, extra=None):
    """Shrink the input set while the same class persists: drop files, then
    ddmin over lines of each file."""
    from fuzzsim import ddmin
    cfg = dict(TIERS[tier])
    wd = os.path.join(work_root(), "C13", "min-%d" % os.getpid())

    def holds(cand):
        rng = rng_for(1, "C13/min", 0)
        stats = {"runs": 0, "compiler_panics": 0, "diag_lists": set(), "sets_with_diagnostics": 0, "render_configs": 0,
                 "locations_checked": 0, "sets": 0}
        c2 = dict(cfg)
        c2["d3_every"] = 1
        if extra and extra.get("delivery"):
            c2["force_delivery"] = tuple(extra["delivery"])
        v = evaluate_set(cand, wd, c2, rng, stats) + check_locations_structured(cand, wd, stats)
        return any(c == cls for c, _, _ in v)

    cur = {"id": s["id"], "kind": s["kind"], "order": list(s["order"]), "files": dict(s["files"])}
    if not holds(cur):
        return s, False
    for name in sorted(cur["files"]):
        if len(cur["files"]) > 1:
            c2 = dict(cur)
            c2["files"] = {k: v for k, v in cur["files"].items() if k != name}
            c2["order"] = [n for n in cur["order"] if n != name]
            if holds(c2):
                cur = c2
    for name in sorted(cur["files"]):
        lines = cur["files"][name].split(b"\n")
        if len(lines) < 2:
            continue

        def test(sub, name=name):
            c2 = dict(cur)
            c2["files"] = dict(cur["files"])
            c2["files"][name] = b"\n".join(sub)
            return holds(c2)
        cur["files"][name] = b"\n".join(ddmin(lines, test, max_tests=150))
    shutil.rmtree(wd, ignore_errors=True)
    return cur, True


def _min_job(args):
    s, cls, detail, extra, tier, seed = args
    set_min_budget()
    if is_known_signature(PROP, signature_of(cls, s, detail)):
        m, ok = s, False
    else:
        try:
            m, ok = minimise_set(s, cls, tier, extra)
        except HarnessError:
            m, ok = s, False
    record = {"engine": "detsim", "set": encode_set(m), "tier": tier, "run_seed": "%s-%s" % (sha(s["id"]), cls),
              "observed": {"class": cls, "detail": detail, "extra": extra}, "minimised": ok}
    sig = cls
    return Finding(PROP, cls, record, signature=signature_of(cls, m, detail), summary="%s on %s: %s" % (cls, s["id"], detail[:600]))


def signature_of(cls, s, detail):
    if cls == "failure_without_code" and "out of range integral type conversion" in detail:
        return cls + "/array_length_above_u32"
    if cls in ("span_not_on_reported_line", "span_out_of_file") and any(b"\r\n" in v for v in s["files"].values()):
        return cls + "/crlf"
    return cls


def run(tier, seed):
    t0 = time.time()
    disable_aslr()
    cfg = TIERS[tier]
    sets = all_sets(seed, tier)
    budget = float(os.environ.get("VERIF_BUDGET_S", "0") or 0)
    results = []
    for res in parallel_imap(_job, ((seed, idx, s, tier) for idx, s in enumerate(sets)), chunksize=2):
        results.append(res)
        if budget and time.time() - t0 > budget:
            break
    tot = {"runs": 0, "compiler_panics": 0, "sets_with_diagnostics": 0, "render_configs": 0, "locations_checked": 0,
           "verbose_runs": 0, "named_spans_checked": 0, "messages_checked": 0, "lexical_spans_checked": 0, "secondary_spans_checked": 0, "ambient_runs": 0, "delivery_runs": 0, "quoted_lines_checked": 0, "underlines_checked": 0, "blamed_arguments_checked": 0}
    diag_lists = set()
    by_kind = {}
    multi = 0
    jobs = []
    per_class = {}
    for res in results:
        for k in tot:
            tot[k] += res["stats"].get(k, 0)
        diag_lists |= {tuple(x) for x in res["stats"]["diag_lists"]}
        by_kind[res["kind"]] = by_kind.get(res["kind"], 0) + 1
        if res["max_imports"] >= 2:
            multi += 1
        for cls, detail, extra in res["violations"]:
            n = per_class.get(cls, 0)
            per_class[cls] = n + 1
            if n < 4:
                jobs.append((sets[res["idx"]], cls, detail, extra, tier, seed))
    findings = parallel_map(_min_job, jobs)
    observed_codes = {c for lst in diag_lists for c in lst}
    findings += catalogue_findings(observed_codes)
    large_runs = 0
    for res in parallel_map(_large_run_job, [(seed, i) for i in range(cfg.get("large_runs", 4))]):
        large_runs += res["runs"]
        tot["runs"] += res["runs"]
        if res["violation"]:
            cls, detail = res["violation"]
            findings.append(Finding(PROP, cls, {"engine": "detsim", "large_run": True, "index": res["i"], "seed": seed, "run_seed": "large-%d" % res["i"],
                                                "files": {"main.pn": res["single"]}, "observed": {"class": cls, "detail": detail}},
                                    signature=cls, summary=detail))
    # ASLR-on probe (thorough): the one source the simulator samples but cannot replay
    aslr_diff = 0
    aslr_n = 0
    if cfg["aslr_probe"]:
        probe = [s for s in sets if s["kind"] in ("generated", "corpus_import")][:cfg["aslr_probe"]]
        for d in parallel_map(_aslr_job, [(s, i) for i, s in enumerate(probe)]):
            aslr_n += 1
            if d:
                aslr_diff += 1
                findings.append(Finding(PROP, "layout_dependent_output", {"engine": "detsim", "set": encode_set(probe[d[0]]), "observed": {"class": "layout_dependent_output", "detail": d[1]}, "run_seed": "aslr-%d" % d[0]},
                                        signature="layout_dependent_output", summary=d[1]))
    n_viol, n_known = report_findings(PROP, findings)
    wall = time.time() - t0
    gen_sets = [x for x in sets if x["kind"] == "generated"]
    sample = encode_set(gen_sets[0] if gen_sets else sets[0])
    sample["files"] = {k: v[:300] for k, v in sample["files"].items()}
    coverage = {
        "evaluations": tot["runs"],
        "distinct_nontrivial": len(diag_lists),
        "rule": "one evaluation = one fresh process of the real penne CLI (or pworker) on an input set under its own entropy stream, simulated clock and pid; distinct_nontrivial = distinct lists of diagnostic codes observed (an input set is non-trivial for D1 when the compiler has something to order: diagnostics, or IR of a module with imports)",
        "samples": [sample, {"entropy_seeds_per_set": cfg["seeds"], "configs": "3 colour x 2 charset + --silent; TERM/NO_COLOR/CLICOLOR_FORCE; stdout pipe vs file"}],
        "exhaustive": False,
        "input_sets": len(results),
        "input_sets_planned": len(sets),
        "input_sets_by_kind": by_kind,
        "input_sets_with_module_having_2plus_imports": multi,
        "input_sets_with_diagnostics": tot["sets_with_diagnostics"],
        "compiler_panics_normalised": tot["compiler_panics"],
        "render_configurations_run": tot["render_configs"],
        "locations_checked": tot["locations_checked"],
        "named_spans_checked": tot["named_spans_checked"],
        "lexical_spans_checked": tot["lexical_spans_checked"],
        "secondary_spans_checked": tot["secondary_spans_checked"],
        "report_messages_checked": tot["messages_checked"],
        "verbose_mode_runs": tot["verbose_runs"],
        "ambient_variation_runs": tot["ambient_runs"],
        "delivery_variation_runs": tot["delivery_runs"],
        "quoted_source_lines_checked": tot["quoted_lines_checked"],
        "underlines_checked": tot["underlines_checked"],
        "blamed_arguments_checked": tot["blamed_arguments_checked"],
        "large_program_run_build_executions": large_runs,
        "aslr_probe_sets": aslr_n,
        "aslr_probe_differences": aslr_diff,
        "runs_per_hour": rate_per_hour(tot["runs"], wall),
        "seeds_per_hour": rate_per_hour(len(results) * cfg["seeds"], wall),
        "simulated_time": "penne reads no clock (0 reads observed would be expected); each run is nevertheless given a different simulated wall clock (start 1e9..2e18 ns, step 1ns..1s) and pid",
        "fault_kinds": {"entropy": {"configured": tot["runs"], "fired": tot["runs"]}, "clock": {"configured": tot["runs"]},
                        "pid": {"configured": tot["runs"]}, "environment": {"configured": len(results) * 2},
                        "aslr_on": {"configured": aslr_n}},
        "aslr_disabled": aslr_disabled(),
        "components": COMPONENTS,
        "known_findings_matched": n_known,
        "violations_by_class": per_class,
    }
    write_evidence(PROP, tier, seed, "exploration", coverage, wall, n_viol, [
        "the sources of run-to-run variation are the ones owned by the simulator: getrandom (hash keys), clock, pid, environment, address-space layout (off; sampled in the thorough tier)",
        "decided: the determinism clause (D1/D2). monitored on every diagnostic seen: rendering (D3) and locations (D4). not checked: catalogue membership, 'covers the offending text'",
    ])
    print("C13 %s: %d input sets (%s), %d runs, %d distinct diagnostic lists, %d locations, %d violation(s), %d known, %.1fs"
          % (tier, len(results), by_kind, tot["runs"], len(diag_lists), tot["locations_checked"], n_viol, n_known, wall))
    return 1 if n_viol else 0


def _large_run_job(args):
    """D1 for `penne run` / `penne build` of a program whose linked IR exceeds
    the pipe buffer: what penne prints (the `Running ...` echo included) and what
    the backend receives must not depend on entropy, clock, pid or TMPDIR."""
    seed, i = args
    rng = rng_for(seed, "C13/large_run", i)
    prog = pngen.generate(rng, n_funcs=rng.randint(110, 170))
    wd = os.path.join(work_root(), "C13", "large%d" % i)
    fresh_dir(wd)
    write_files(wd, {"main.pn": prog.single_file()})
    os.makedirs(os.path.join(wd, "bin"))
    sub = rng.choice(["run", "build"])
    name = "lli" if sub == "run" else "clang"
    shutil.copy(STUB, os.path.join(wd, "bin", name))
    obs = []
    for k in range(3):
        env = base_env({"PATH": os.path.join(wd, "bin") + ":" + SYSTEM_PATH, "VERIF_STUB_SCRIPT": "read=all,exit=0",
                        "VERIF_STUB_MARKER": os.path.join(wd, "marker%d" % k), "TMPDIR": os.path.join(wd, "tmp%d" % (k % 2))})
        os.makedirs(env["TMPDIR"], exist_ok=True)
        env = sim_env(env, entropy=rng.getrandbits(64), clock=(rng.randrange(10**9, 10**18), 1000), pid=rng.randrange(2, 4_000_000))
        r = run_proc([PENNE, sub, "--color=never", "--arrows=ascii", "main.pn"], wd, env)
        try:
            with open(os.path.join(wd, "marker%d" % k)) as f:
                marker = re.sub(r"marker\d", "marker", f.read())
        except OSError:
            marker = ""
        left = sorted(os.listdir(env["TMPDIR"]))
        obs.append((r.status(), r.out.replace(env["TMPDIR"].encode(), b"$TMPDIR"), sha(r.err), marker, left))
    shutil.rmtree(wd, ignore_errors=True)
    viol = None
    for o in obs[1:]:
        if o != obs[0]:
            a, b = obs[0][1], o[1]
            k = next((j for j in range(min(len(a), len(b))) if a[j] != b[j]), min(len(a), len(b)))
            what = "stdout differs at byte %d: %r vs %r" % (k, a[max(0, k - 40):k + 50], b[max(0, k - 40):k + 50]) if a != b else \
                ("backend invocation differs: %s vs %s" % (obs[0][3][:120], o[3][:120]) if obs[0][3] != o[3] else "status/stderr/temporary files differ: %s vs %s" % (obs[0][4], o[4]))
            viol = ("nondeterministic_run_output", "`penne %s` of a %d-function program: %s" % (sub, len(prog.items), what))
            break
    return {"i": i, "sub": sub, "violation": viol, "runs": 3, "single": prog.single_file() if viol else None}


def _aslr_job(args):
    s, i = args
    wd = os.path.join(work_root(), "C13", "aslr%d" % i)
    fresh_dir(wd)
    write_files(wd, s["files"])
    opts = ["--color=never", "--arrows=ascii"]
    r1, a1 = one_run(wd, s["order"], 7, (10**9, 1), 77, opts)
    out = None
    for _ in range(3):
        r2, a2 = one_run(wd, s["order"], 7, (10**9, 1), 77, opts, aslr=True)
        if verdict_of(r1) != verdict_of(r2) or a1 != a2:
            out = (i, "with ASLR on %s differs from the controlled run: %s vs %s" % (s["id"], verdict_of(r2), verdict_of(r1)))
            break
    shutil.rmtree(wd, ignore_errors=True)
    return out


def replay(record):
    disable_aslr()
    if record.get("large_run"):
        res = _large_run_job((record["seed"], record["index"]))
        if res["violation"]:
            print("replay: %s: %s" % res["violation"])
            print("VIOLATION property=%s replay=%s" % (PROP, record.get("_path", "?")))
            return 1
        print("replay: not reproduced")
        return 0
    if record.get("static_catalogue_check"):
        hit = [f for f in catalogue_findings(set()) if f.record["code"] == record["code"]]
        print("replay: %s %s docs/errors.md" % (record["code"], "is still missing from" if hit else "is now in"))
        if hit:
            print("VIOLATION property=%s replay=%s" % (PROP, record.get("_path", "?")))
        return 1 if hit else 0
    s = decode_set(record["set"])
    tier = record.get("tier", "quick")
    cfg = dict(TIERS[tier])
    cfg["d3_every"] = 1
    if (record["observed"].get("extra") or {}).get("delivery"):
        cfg["force_delivery"] = tuple(record["observed"]["extra"]["delivery"])
    wd = os.path.join(work_root(), "C13", "replay-%d" % os.getpid())
    rng = rng_for(1, "C13/min", 0)
    stats = {"runs": 0, "compiler_panics": 0, "diag_lists": set(), "sets_with_diagnostics": 0, "render_configs": 0,
             "locations_checked": 0, "sets": 0}
    v = evaluate_set(s, wd, cfg, rng, stats) + check_locations_structured(s, wd, stats)
    shutil.rmtree(wd, ignore_errors=True)
    cls = record["observed"]["class"]
    for c, d, _ in v:
        print("replay: %s: %s" % (c, d[:500]))
    if any(c == cls for c, _, _ in v):
        print("VIOLATION property=%s replay=%s" % (PROP, record.get("_path", "?")))
        return 1
    print("replay: recorded class %s not reproduced" % cls)
    return 1 if v else 0


def determinism_log(seed, indices):
    sets = all_sets(seed, "quick")
    pick = [(seed, idx, sets[idx], "quick") for idx in indices if idx < len(sets)]
    lines = []
    for res in parallel_map(_job, pick):
        lines.append("C13 %d %s viol=%s stats=%s" % (res["idx"], res["id"], sorted((c, d) for c, d, _ in res["violations"]),
                                                      sorted((k, v) for k, v in res["stats"].items() if k != "diag_lists")))
    return lines
