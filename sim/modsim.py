"""modsim -- C12: imports expose exactly the public interface and modules compose.

System under test: the REAL penne CLI (fresh process per run, under simos with
a per-run entropy stream) fed the same program as one file and as 2-4 modules
in every file order, plus the REAL `Compiler` object fed module histories
(pworker). Oracles O1-O6 of DESIGN.md section 3.
"""
import itertools
import json
import os
import re
import shutil
import time

from common import *  # noqa: F401,F403
import pngen

PROP = "C12"
TAG = "C12/prog"

TIERS = {
    # programs, splits per program, orders per split (None = all), entropy seeds per order,
    # negatives per split, histories per program
    "quick": dict(programs=90, splits=2, orders=4, seeds=2, negatives=4, histories=1),
    "thorough": dict(programs=2500, splits=3, orders=None, seeds=3, negatives=12, histories=2),
}

RUN_MARK = b'Running "lli" "-"...\n\n'
HDR = re.compile(r"\[ ([^\]\s]+):(\d+):(\d+) \]")
CODE = re.compile(r"\[([EL]\d+)\]")


# ------------------------------------------------------------ executions --
DISTURBED = [0]     # runs repeated because the backend was killed from outside (per worker process)


def penne_run(wd, files_in_order, entropy, extra_args=(), env_extra=None, sub="run"):
    env = sim_env(base_env(env_extra), entropy=entropy)
    argv = [PENNE, sub, "--color=never", "--arrows=ascii"] + list(extra_args) + list(files_in_order)
    r = run_proc(argv, wd, env)
    if r.rc == 1 and b"Error: no exitcode" in r.err:
        # lli was killed by a signal that is not its own crash (SIGKILL / SIGTERM: somebody's `pkill lli`,
        # the OOM killer). Everything the run depends on is owned by the simulator, so the same run again
        # must end the same way; if it does, that is the verdict - if it does not, the first one was
        # disturbed from outside the simulated world and is not a statement about penne.
        r2 = run_proc(argv, wd, env)
        if not (r2.rc == 1 and b"Error: no exitcode" in r2.err):
            DISTURBED[0] += 1
            return r2
    return r


def parse_run(r):
    """-> dict(verdict, output, prog_out, prog_err). verdict: ok | rejected |
    crash | hang | malformed"""
    if r.timeout:
        return {"verdict": "hang"}
    if r.sig or r.rc == 101 or r.rc > 1:
        # (a panic message of the Rust runtime names the OS thread id, which the simulator does not own)
        return {"verdict": "crash", "detail": r.status() + " " + re.sub(r"(thread '[^']*') \(\d+\)", r"\1", r.err.decode(errors="replace")[-600:])}
    if r.rc == 1:
        codes = CODE.findall(r.err.decode(errors="replace"))
        heads = HDR.findall(r.err.decode(errors="replace"))
        return {"verdict": "rejected", "codes": codes, "heads": heads,
                "stderr": r.err.decode(errors="replace")[-1500:], "stdout_tail": r.out.decode(errors="replace")[-300:]}
    a = r.out.find(RUN_MARK)
    b = r.out.rfind(b"Output: ")
    if a < 0 or b < 0 or not r.out.endswith(b"\nDone.\n"):
        return {"verdict": "malformed", "detail": r.out.decode(errors="replace")[-400:]}
    prog_out = r.out[a + len(RUN_MARK):b]
    try:
        output = int(r.out[b + 8:-7])
    except ValueError:
        return {"verdict": "malformed", "detail": r.out.decode(errors="replace")[-400:]}
    return {"verdict": "ok", "output": output, "prog_out": prog_out.decode(errors="replace"),
            "prog_err": r.err.decode(errors="replace")}


def behaviour(p):
    if p["verdict"] != "ok":
        return (p["verdict"],)
    return ("ok", p["output"], p["prog_out"], strip_lints(p["prog_err"]))


LINT_BLOCK = re.compile(r"\[L\d+\] (?:Warning|Advice):.*?\n-+'\n", re.S)


def strip_lints(text):
    """Program stderr without penne's own lint reports (which name the file
    and therefore legitimately differ between the unsplit and split program)."""
    return LINT_BLOCK.sub("", text).replace("\n\n", "\n").strip("\n")


def llvm_as(path, wd):
    r = run_proc(["/usr/bin/llvm-as", "-o", "/dev/null", path], wd, base_env())
    return r.rc == 0 and not r.sig, r.err.decode(errors="replace")[-400:]


PUB_FN = re.compile(r"^pub (?:extern )?fn (\w+)\([^\n;]*$", re.M)   # definitions only, not heads
MAIN_FN = re.compile(r"^fn main\(", re.M)
DEFINE = re.compile(r"^define ([^@\n]*)@([A-Za-z0-9_.]+)\(", re.M)


def external_definitions(ir):
    out = set()
    for attrs, name in DEFINE.findall(ir):
        if "private" not in attrs.split() and "internal" not in attrs.split():
            out.add(name)
    return out


FN_DECL = re.compile(r"^(?:declare|define) ([^@\n]*)@([A-Za-z0-9_.]+)\(", re.M)
CALL = re.compile(r"\bcall ([^@\n]*)@([A-Za-z0-9_.]+)\(")
CALLCONVS = ("fastcc", "coldcc", "ccc", "tailcc", "swiftcc")


def callconv_mismatches(ir):
    """Calls whose calling convention is not the one their callee is declared
    with (LLVM language reference: undefined behaviour; an optimising backend
    turns such a call into `unreachable`)."""
    def cc_of(attrs):
        for w in attrs.split():
            if w in CALLCONVS or w.startswith("cc"):
                return w
        return "ccc"
    callee = {name: cc_of(attrs) for attrs, name in FN_DECL.findall(ir)}
    out = []
    for attrs, name in CALL.findall(ir):
        if name in callee and cc_of(attrs) != callee[name]:
            out.append((name, callee[name], cc_of(attrs)))
    return out


# ----------------------------------------------------------------- cases --
class Case:
    """One self-contained configuration: files + file orders + entropy seeds
    (+ what the unsplit program does). Everything `evaluate` needs."""

    def __init__(self, files, orders, entropies, reference=None, pub_fns=None, tag=""):
        self.files = files
        self.orders = orders
        self.entropies = entropies
        self.reference = reference      # behaviour tuple of the unsplit program
        self.pub_fns = pub_fns or {}    # file -> names that must be external definitions
        self.tag = tag
        self.structure = None           # generator-level description (for shrinking)
        self.cwd = ""                   # directory (below the run's root) penne is started in
        self.may_reject = False         # a rejection with a diagnostic is as good as the reference behaviour

    def to_json(self):
        return {"files": self.files, "orders": self.orders, "entropies": self.entropies,
                "reference": list(self.reference) if self.reference else None,
                "pub_fns": {k: sorted(v) for k, v in self.pub_fns.items()}, "tag": self.tag,
                "structure": self.structure, "cwd": self.cwd, "may_reject": self.may_reject}

    @staticmethod
    def from_json(d):
        ref = tuple(d["reference"]) if d.get("reference") else None
        c = Case(d["files"], d["orders"], d["entropies"], ref,
                 {k: set(v) for k, v in (d.get("pub_fns") or {}).items()}, d.get("tag", ""))
        c.structure = d.get("structure")
        c.cwd = d.get("cwd", "")
        c.may_reject = d.get("may_reject", False)
        return c


def derive_single_file(files, order):
    """The unsplit program of a set of modules: imports dropped, `pub`
    dropped, texts concatenated (used as the reference while minimising)."""
    out = []
    for name in order:
        if name not in files:
            continue
        for line in files[name].splitlines():
            if line.startswith("import "):
                continue
            if line.startswith("pub "):
                line = line[4:]
            out.append(line)
        out.append("")
    return "\n".join(out) + "\n"


def evaluate_case(case, wd, check_artifacts=True, stats=None):
    """Run every (order, entropy) of the case. Returns list of
    (class, detail) violations; empty when all oracles hold."""
    fresh_dir(wd)
    if case.cwd:
        wd = os.path.join(wd, case.cwd)
        os.makedirs(wd)
    write_files(wd, case.files)
    viol = []
    first = None       # behaviour of the first run
    per_order = {}
    nruns = 0
    for order in case.orders:
        ir_by_seed = []
        for e in case.entropies:
            r = penne_run(wd, order, e)
            nruns += 1
            p = parse_run(r)
            b = behaviour(p)
            if p["verdict"] == "crash":
                viol.append(("compiler_crash", "order=%s entropy=%d: %s" % (order, e, p.get("detail"))))
            elif p["verdict"] == "hang":
                # one hang decides the case; do not spend a timeout per order
                if stats is not None:
                    stats["runs"] = stats.get("runs", 0) + nruns
                return [("hang", "order=%s entropy=%d: no exit within %ds" % (order, e, TIMEOUT_S))]
            elif p["verdict"] == "rejected" and case.may_reject:
                pass
            elif p["verdict"] in ("rejected", "malformed"):
                viol.append(("split_rejected", "order=%s entropy=%d: %s %s" % (order, e, p.get("codes"), (p.get("stderr") or p.get("detail") or "")[:400])))
            if first is None:
                first = (order, e, b)
            per_order.setdefault(tuple(order), []).append((e, b))
        # O5: same order, different entropy -> same behaviour
        bs = per_order[tuple(order)]
        if any(x[1] != bs[0][1] for x in bs):
            viol.append(("nondeterministic_behaviour", "order=%s: entropy %d -> %r, entropy %d -> %r" %
                         (order, bs[0][0], bs[0][1][:2], [x for x in bs if x[1] != bs[0][1]][0][0],
                          [x for x in bs if x[1] != bs[0][1]][0][1][:2])))
    # O5: order independence of verdict and behaviour
    all_b = [(o, e, b) for o, lst in per_order.items() for e, b in lst]
    distinct_b = {b for _, _, b in all_b}
    if len(distinct_b) > 1 and not any(c in ("compiler_crash", "hang") for c, _ in viol):
        a = all_b[0]
        other = [x for x in all_b if x[2] != a[2]][0]
        if a[0] != other[0]:
            viol.append(("order_dependent_behaviour", "order %s -> %r but order %s -> %r" %
                         (list(a[0]), a[2][:3], list(other[0]), other[2][:3])))
    # O2: behaves like the unsplit program
    if case.reference is not None:
        for o, e, b in all_b:
            if b[0] == "ok" and tuple(b) != tuple(case.reference):
                viol.append(("split_behaviour_mismatch", "order=%s entropy=%d: split %r, unsplit %r" %
                             (list(o), e, b[:3], tuple(case.reference)[:3])))
                break
    # O3 + O5(ir across entropy): per-module artefacts
    n_as = 0
    if check_artifacts and not any(c == "compiler_crash" for c, _ in viol):
        for order in case.orders[:2]:
            texts = []
            for e in case.entropies[:2]:
                out_dir = os.path.join(wd, "out")
                shutil.rmtree(out_dir, ignore_errors=True)
                r = penne_run(wd, order, e, extra_args=["--out-dir", "out"], sub="emit")
                nruns += 1
                if r.sig or r.rc != 0:
                    if r.sig or r.rc == 101:
                        viol.append(("compiler_crash", "emit order=%s entropy=%d: %s" % (order, e, r.status())))
                    break
                irs = {}
                for name in order:
                    if name not in case.files:
                        continue  # core:/vendor: package
                    # where the artefact of `../x.pn` belongs is C18's business (inside the
                    # out-dir); here either place will do
                    path = os.path.join("out", name[:-3] + ".pn.ll")
                    inside = os.path.join("out", *[c for c in (name[:-3] + ".pn.ll").split("/") if c not in ("..", ".", "")])
                    if not os.path.isfile(os.path.join(wd, path)) and os.path.isfile(os.path.join(wd, inside)):
                        path = inside
                    try:
                        with open(os.path.join(wd, path)) as f:
                            irs[name] = f.read()
                    except OSError:
                        viol.append(("artifact_missing", "emit order=%s: %s missing" % (order, path)))
                        continue
                    if e == case.entropies[0]:
                        ok, msg = llvm_as(path, wd)
                        n_as += 1
                        if not ok:
                            viol.append(("invalid_ir", "module %s (order=%s): %s" % (name, order, msg)))
                        bad_cc = callconv_mismatches(irs[name])
                        if bad_cc:
                            viol.append(("callconv_mismatch", "module %s: @%s is declared %s but called %s (undefined behaviour; `build --backend-args=-O1` miscompiles it)" %
                                         ((name,) + bad_cc[0])))
                        ext = external_definitions(irs[name])
                        declared_pub = set(PUB_FN.findall(case.files[name]))
                        if MAIN_FN.search(case.files[name]):
                            declared_pub.add("main")
                        for fn in sorted(declared_pub | set(case.pub_fns.get(name, ()))):
                            if fn not in ext:
                                viol.append(("pub_not_external", "%s in %s is not an external definition" % (fn, name)))
                        for fn in sorted(ext - declared_pub):
                            viol.append(("private_fn_external", "private function %s of %s is an external definition: other modules can link against it" % (fn, name)))
                texts.append((e, irs))
            if len(texts) == 2 and texts[0][1] != texts[1][1]:
                diff = [n for n in order if texts[0][1].get(n) != texts[1][1].get(n)]
                viol.append(("nondeterministic_ir", "order=%s: IR of %s differs between entropy %d and %d" %
                             (order, diff, texts[0][0], texts[1][0])))
    if stats is not None:
        stats["runs"] = stats.get("runs", 0) + nruns
        stats["llvm_as"] = stats.get("llvm_as", 0) + n_as
        stats["schedules"] = stats.get("schedules", 0) + len(case.orders) * len(case.entropies)
        stats["orders"] = stats.get("orders", 0) + len(case.orders)
    # de-duplicate by class, keep first detail
    seen = {}
    for c, d in viol:
        seen.setdefault(c, d)
    return list(seen.items())


def evaluate_negative(neg, wd, stats=None):
    """neg: dict(files, orders, entropy, module_file, expect_code). Must be
    rejected with the expected undefined-reference code located in the
    referencing module, in every order."""
    fresh_dir(wd)
    if neg.get("cwd"):
        wd = os.path.join(wd, neg["cwd"])
        os.makedirs(wd)
    write_files(wd, neg["files"])
    viol = []
    for order in neg["orders"]:
        r = penne_run(wd, order, neg["entropy"], sub="emit")
        if stats is not None:
            stats["runs"] = stats.get("runs", 0) + 1
        p = parse_run(r) if r.rc != 0 or r.sig or r.timeout else {"verdict": "accepted"}
        if p["verdict"] == "accepted":
            viol.append(("visibility_leak", "order=%s: reference from %s to %s item `%s` (%s) was accepted" %
                         (order, neg["module_file"], neg["reason"], neg["item"], neg["kind"])))
        elif p["verdict"] in ("crash", "hang"):
            viol.append(("compiler_crash", "negative order=%s: %s" % (order, p.get("detail"))))
        elif p["verdict"] == "rejected":
            want = "E%d" % neg["expect_code"]
            located = [h for h in p["heads"] if h[0] == neg["module_file"]]
            ok_codes = {want, "E477"} if neg["kind"] == "import" else {want}
            if not (ok_codes & set(p["codes"])) or not located:
                viol.append(("wrong_rejection", "order=%s: expected %s in %s, got codes %s at %s" %
                             (order, want, neg["module_file"], p["codes"], p["heads"][:3])))
    seen = {}
    for c, d in viol:
        seen.setdefault(c, d)
    return list(seen.items())


# -------------------------------------------------------------- histories --
TYPE_SUFFIX = re.compile(r"(%[A-Za-z_][A-Za-z0-9_]*)\.\d+\b")


def norm_ir(ir):
    return TYPE_SUFFIX.sub(r"\1", ir) if ir else ir


def evaluate_history(spec, wd, entropy, stats=None):
    fresh_dir(wd)
    with open(os.path.join(wd, "spec.json"), "w") as f:
        json.dump(spec, f)
    env = sim_env(base_env(), entropy=entropy)
    r = run_proc([PWORKER, "history", "spec.json"], wd, env)
    if stats is not None:
        stats["histories"] = stats.get("histories", 0) + 1
    recs = []
    for line in r.out.decode(errors="replace").splitlines():
        try:
            recs.append(json.loads(line))
        except ValueError:
            pass
    refs = {(x["g"], x["m"]): x for x in recs if x.get("kind") == "ref"}
    steps = [x for x in recs if x.get("kind") == "step"]
    done = any(x.get("kind") == "done" for x in recs)
    viol = []
    if r.timeout:
        return [("hang", "history did not finish")]
    if not done:
        last = steps[-1] if steps else None
        viol.append(("compiler_crash", "history died (%s) after step %s of %d: %s" %
                     (r.status(), last and last["i"], len(spec["ops"]), r.err.decode(errors="replace")[-500:])))
    for s in steps:
        ref = refs.get((s["g"], s["m"]))
        if ref is None or ref.get("verdict") == "panic":
            continue
        if s["stop"] == "add":
            continue
        same = True
        what = []
        if s["stop"] == "full":
            if s["verdict"] != ref["verdict"]:
                same = False
                what.append("verdict %s vs fresh %s" % (s["verdict"], ref["verdict"]))
            elif norm_ir(s.get("ir")) != norm_ir(ref.get("ir")):
                same = False
                what.append("IR text differs from fresh compiler")
        else:
            if s["verdict"] == "abandoned" and ref["verdict"] not in ("ok",):
                pass
            elif s["verdict"] not in ("abandoned",) and s["verdict"] != ref["verdict"]:
                same = False
                what.append("verdict %s vs fresh %s" % (s["verdict"], ref["verdict"]))
        if s["errors"] != ref["errors"] and s["verdict"] != "abandoned":
            same = False
            what.append("diagnostics differ")
        if s.get("lints") != ref.get("lints") and s["verdict"] in ("ok", "abandoned") and spec["ops"][s["i"]].get("lints", True):
            same = False
            what.append("lints differ")
        if not same:
            viol.append(("isolation_mismatch", "step %d (%s, after %s): %s" %
                         (s["i"], s["name"], [o.get("stop", "full") for o in spec["ops"][:s["i"]]], "; ".join(what))))
    linked = [x for x in recs if x.get("kind") == "linked"]
    if linked and linked[0].get("ir") and spec.get("check_linked", True):
        with open(os.path.join(wd, "linked.ll"), "w") as f:
            f.write(linked[0]["ir"])
        ok, msg = llvm_as("linked.ll", wd)
        if not ok:
            viol.append(("invalid_ir_after_history", msg))
    if linked and linked[0].get("ir"):
        # what every module defined for the outside is defined in the linked program
        # (whatever became of the modules in between)
        have = external_definitions(linked[0]["ir"])
        for s in steps:
            if s["stop"] == "full" and s["verdict"] == "ok" and s.get("ir"):
                lost = sorted(external_definitions(s["ir"]) - have)
                if lost:
                    viol.append(("linked_program_lost_definitions", "step %d (%s) defined %s; the linked program does not" % (s["i"], s["name"], lost[:4])))
                    break
    seen = {}
    for c, d in viol:
        seen.setdefault(c, d)
    return list(seen.items())


# ------------------------------------------------------------- generation --
def sample_orders(files, rng, limit):
    if limit is None and len(files) > 4:
        limit = 24          # exhaustive up to 4 names (24 orders), sampled above
    if limit is None:
        return [list(p) for p in itertools.permutations(files)]
    n_perms = 1
    for i in range(2, len(files) + 1):
        n_perms *= i
    if n_perms <= limit:
        return [list(p) for p in itertools.permutations(files)]
    if n_perms > 5000:
        chosen = [list(files), list(reversed(files))]
        while len(chosen) < limit:
            p = list(files)
            rng.shuffle(p)
            if p not in chosen:
                chosen.append(p)
        return chosen
    perms = list(itertools.permutations(files))
    chosen = [list(files), list(reversed(files))]
    rest = [list(p) for p in perms if list(p) not in chosen]
    rng.shuffle(rest)
    return (chosen + rest)[:limit]


AUX_LINT_REJECTED = """
fn zz_wait_for(x: i32) -> i32
{
	if x == 50
	{
		loop;
	}
	return: x
}

fn zz_narrow() -> u8
{
	var big: i32 = 1000;
	var small: u8 = big;
	return: small
}
"""

AUX_LINT_ACCEPTED = """
pub fn zz_wait_twice() -> i32
{
	var x = 33;
	if x == 50
	{
		loop;
	}
	if x == 100
	{
		loop;
	}
	return: x
}
"""

AUX_BACKEND_REFUSES = """
const ZZ_LIMIT: u8 = 200;
const ZZ_TABLE: [4]u8 = [1, 2, 3, 4];

struct ZzPair
{
	first: u8,
	second: u8,
}

fn zz_sum(buffer: &[5000000000]u8) -> u8
{
	return: buffer[0] + ZZ_LIMIT + ZZ_TABLE[1]
}
"""


def make_history_spec(rng, split, files, other_split, other_files, negative_module=None):
    groups = [[{"name": n, "source": files[n]} for n in split.files]]
    if other_split is not None:
        groups.append([{"name": "o/" + n, "source": other_files[n]} for n in other_split.files])
        # imports of the second program are written root-relative: re-root them
        for mod in groups[1]:
            mod["source"] = re.sub(r'import "', 'import "o/', mod["source"])
    if negative_module is not None:
        groups.append([{"name": "bad.pn", "source": negative_module}])
    # modules that end badly or leave something to collect: rejected with lints
    # pending, accepted with lints (perhaps never taken), refused by the back
    # end while it declares a signature (an outer error, not a diagnostic)
    aux = []
    if rng.random() < 0.5:
        aux.append({"name": "aux/lint_rejected.pn", "source": AUX_LINT_REJECTED})
    if rng.random() < 0.5:
        aux.append({"name": "aux/lint_accepted.pn", "source": AUX_LINT_ACCEPTED})
    if rng.random() < 0.5:
        aux.append({"name": "aux/backend_refuses.pn", "source": AUX_BACKEND_REFUSES})
    if aux:
        groups.append(aux)
    ops = []
    for g, group in enumerate(groups):
        for m in range(len(group)):
            ops.append({"g": g, "m": m, "stop": "full", "lints": True})
    rng.shuffle(ops)
    # crash-like operations
    for _ in range(rng.randint(0, 2)):
        g = rng.randrange(len(groups))
        m = rng.randrange(len(groups[g]))
        ops.insert(rng.randrange(len(ops) + 1), {"g": g, "m": m, "stop": rng.choice(["add", "analyze"]), "lints": rng.random() < 0.5})
    for op in ops:
        if rng.random() < 0.15:
            op["lints"] = False
        if rng.random() < 0.2:
            op["probe"] = True      # read-only calls at unusual moments (pworker: generate_ir early and twice, take_lints twice)
    # a module abandoned half-way leaves declarations without bodies in the
    # combined module; linking is only judged when every module completed
    complete = all(op["stop"] == "full" for op in ops) and negative_module is None and not any(a["name"] != "aux/lint_accepted.pn" for a in aux)
    spec = {"groups": groups, "ops": ops, "link": True, "refs": True, "check_linked": complete}
    r = rng.random()
    if r < 0.1:
        spec["wasm"] = True         # the whole history (and its references) through a Compiler retargeted to wasm32
    elif r < 0.35 and len({(o["g"], o["m"]) for o in ops}) == len(ops) and len(ops) >= 2:
        spec["wasm_from"] = rng.randrange(1, len(ops))      # retargeted in the middle: earlier modules stay, later ones are wasm32
    return spec


def build_program_cases(seed, i, tier):
    """Everything derived from run index i, in a fixed draw order."""
    cfg = TIERS[tier]
    rng = rng_for(seed, TAG, i)
    prog = pngen.generate(rng)
    single = prog.single_file()
    ref_entropy = rng.getrandbits(64)
    out = {"i": i, "single": single, "ref_entropy": ref_entropy, "cases": [], "negatives": [], "histories": [],
           "shape": []}
    splits = []
    for s in range(cfg["splits"]):
        sp = pngen.random_split(prog, rng, k=(rng.randint(5, 8) if rng.random() < 0.12 else None), allow_parent=True, allow_empty=True)
        pert = pngen.perturb(sp, rng)
        item_order = {}
        for m in range(sp.k):
            own = [it.name for it in prog.items if sp.assign[it.name] == m]
            rng.shuffle(own)
            empties = [n for n in own if prog.by_name[n].kind == "fn" and prog.by_name[n].body.endswith("{\n}\n")]
            if empties and rng.random() < 0.9:
                # a function with a parameter and an empty body as the last thing the module defines
                e = rng.choice(empties)
                own.remove(e)
                own.append(e)
            item_order[str(m)] = own
            if rng.random() < 0.25:
                item_order.setdefault("late_imports", {})[str(m)] = rng.randint(1, 2)
        files = pngen.ordered_file_map(sp, item_order)
        structure = pngen.split_to_json(sp, item_order)
        structure["extra_files"] = {}
        structure["packages"] = []
        names = list(sp.files)
        if rng.random() < 0.45:
            if rng.random() < 0.5:
                files["extra.pn"] = pngen.twin_module(prog, rng)
                pert.append("twin_module")
            else:
                files["extra.pn"] = pngen.extra_module(rng)
            structure["extra_files"]["extra.pn"] = files["extra.pn"]
            names.append("extra.pn")
            pert.append("extra_module")
        if rng.random() < 0.15:
            names.append("core:text")
            structure["packages"].append("core:text")
            pert.append("core_package")
        orders = sample_orders(names, rng, cfg["orders"])
        entropies = [rng.getrandbits(64) for _ in range(cfg["seeds"])]
        pub_fns = {}
        for it in prog.items:
            if it.kind == "fn" and (it.name in sp.pub or it.name == "main") and not it.body.rstrip().endswith(";"):
                m = sp.assign[it.name]
                new = sp.renames.get(m, {}).get(it.name, it.name)
                pub_fns.setdefault(sp.files[m], set()).add(new)
        case = Case(files, orders, entropies, None, pub_fns, tag="split%d" % s)
        case.structure = structure
        case.cwd = pngen.CWD_OF_LAYOUT.get(sp.files[1], "") if sp.k > 1 else ""
        structure["cwd"] = case.cwd
        imports_max = max(len(sp.imports[m]) + len(sp.extra_imports.get(m, [])) for m in range(sp.k))
        out["shape"].append({"k": sp.k, "perturbations": sorted(pert), "max_imports": imports_max,
                             "layout": sp.files[0], "pub": len(sp.pub)})
        out["cases"].append(case)
        splits.append((sp, files, names))
        # negatives for this split
        negs = pngen.negative_variants(sp, rng, cfg["negatives"] if s == 0 else max(1, cfg["negatives"] // 4))
        for n in negs:
            nfiles = dict(files)
            mf = sp.files[n["module"]]
            if n["kind"] == "import":
                nfiles[mf] = n["import_line"] + nfiles[mf]
            else:
                nfiles[mf] = nfiles[mf] + "\n" + n["probe"]
            norders = [names, list(reversed(names))]
            out["negatives"].append({"files": nfiles, "orders": norders, "entropy": rng.getrandbits(64),
                                     "module_file": mf, "item": n["item"], "kind": n["kind"],
                                     "reason": n["reason"], "expect_code": n["expect_code"],
                                     "probe": n["probe"], "import_line": n.get("import_line"), "structure": structure,
                                     "cwd": case.cwd})
    # histories: this program's first split interleaved with an unrelated program
    for h in range(cfg["histories"]):
        sp, files, _names = splits[h % len(splits)]
        oprog = pngen.generate(rng, prefix="y", n_funcs=rng.randint(2, 5))
        # rename main so that two programs link into one module
        for it in oprog.items:
            if it.name == "main":
                it.body = it.body.replace("fn main(", "fn ymain(", 1)
                it.head = it.head.replace("fn main(", "fn ymain(", 1)
        osp = pngen.random_split(oprog, rng, k=rng.choice([1, 2, 2]))
        ofiles = osp.file_map(rng)
        negmod = None
        if rng.random() < 0.3:
            negmod = "fn broken() -> i32\n{\n\treturn: nothing_here(1)\n}\n"
        spec = make_history_spec(rng, sp, files, osp, ofiles, negmod)
        out["histories"].append({"spec": spec, "entropy": rng.getrandbits(64)})
    return out


# Hand-written programs for shapes the generator avoids on purpose (section 8.1b of
# DESIGN.md): names of one module captured by another through an import, and the C
# symbols behind the builtins. (name, unsplit program or None, files, command-line
# names, files that make up the reference when there is no unsplit program)
HYGIENE_TEMPLATES = [
    ("private_constant_captured_through_import",
     "const A_EXP: i32 = 5;\nconst B: i32 = A_EXP + 1;\n\nfn get_b() -> i32\n{\n\treturn: B\n}\n\nconst A_IMP: i32 = 100;\n\n"
     "fn main() -> i32\n{\n\tvar d = A_IMP - 100;\n\treturn: B - get_b() + 7 + d\n}\n",
     {"a.pn": "const A: i32 = 5;\npub const B: i32 = A + 1;\n\npub fn get_b() -> i32\n{\n\treturn: B\n}\n",
      "main.pn": 'import "a.pn";\n\nconst A: i32 = 100;\n\nfn main() -> i32\n{\n\tvar d = A - 100;\n\treturn: B - get_b() + 7 + d\n}\n'},
     ["main.pn", "a.pn"], None),
    ("private_length_captured_through_import",
     "const N_EXP: usize = 4;\n\nstruct S\n{\n\td: [N_EXP]i32,\n\ttail: i32,\n}\n\nfn size_there() -> usize\n{\n\treturn: |:S|\n}\n\n"
     "const N_IMP: usize = 1;\n\nfn main() -> i32\n{\n\tvar here: usize = |:S| + N_IMP - 1;\n\tvar r = 7;\n\tif here == size_there()\n\t{\n\t\tr = 8;\n\t}\n\treturn: r\n}\n",
     {"a.pn": "const N: usize = 4;\n\npub struct S\n{\n\td: [N]i32,\n\ttail: i32,\n}\n\npub fn size_there() -> usize\n{\n\treturn: |:S|\n}\n",
      "main.pn": 'import "a.pn";\n\nconst N: usize = 1;\n\nfn main() -> i32\n{\n\tvar here: usize = |:S| + N - 1;\n\tvar r = 7;\n\tif here == size_there()\n\t{\n\t\tr = 8;\n\t}\n\treturn: r\n}\n'},
     ["main.pn", "a.pn"], None),
    ("unrelated_function_named_like_a_builtin_symbol",
     None,
     {"greeter.pn": 'pub fn greet()\n{\n\tprint!("hello\\n");\n}\n',
      "main.pn": 'import "greeter.pn";\n\nfn main() -> i32\n{\n\tgreet();\n\treturn: 7\n}\n',
      "util.pn": "pub fn write(x: i32) -> i32\n{\n\treturn: x + 1\n}\n"},
     ["main.pn", "greeter.pn", "util.pn"], ["main.pn", "greeter.pn"]),
    ("pub_constant_and_pub_function_of_one_name_from_two_modules",
     "const area: i32 = 4;\n\nfn area(w: i32) -> i32\n{\n\treturn: w * 2\n}\n\nfn main() -> i32\n{\n\treturn: area(3) + area\n}\n",
     {"consts.pn": "pub const area: i32 = 4;\n",
      "shapes.pn": "pub fn area(w: i32) -> i32\n{\n\treturn: w * 2\n}\n",
      "main.pn": 'import "consts.pn";\nimport "shapes.pn";\n\nfn main() -> i32\n{\n\treturn: area(3) + area\n}\n'},
     ["main.pn", "consts.pn", "shapes.pn"], None),
    ("two_modules_export_structures_of_one_name",
     "struct PointA\n{\n\tx: i32,\n}\n\nfn px(p: PointA) -> i32\n{\n\treturn: p.x\n}\n\nstruct PointB\n{\n\ta: i32,\n\tb: i32,\n}\n\nfn pa(p: PointB) -> i32\n{\n\treturn: p.a + p.b\n}\n\n"
     "fn other() -> i32\n{\n\tvar q = PointB { a: 20, b: 10 };\n\treturn: pa(q)\n}\n\nfn main() -> i32\n{\n\tvar p = PointA { x: 7 };\n\treturn: px(p) + other()\n}\n",
     {"one.pn": "pub struct Point\n{\n\tx: i32,\n}\n\npub fn px(p: Point) -> i32\n{\n\treturn: p.x\n}\n",
      "two.pn": "pub struct Point\n{\n\ta: i32,\n\tb: i32,\n}\n\npub fn pa(p: Point) -> i32\n{\n\treturn: p.a + p.b\n}\n",
      "other.pn": 'import "two.pn";\n\npub fn other() -> i32\n{\n\tvar q = Point { a: 20, b: 10 };\n\treturn: pa(q)\n}\n',
      "main.pn": 'import "one.pn";\nimport "other.pn";\n\nfn main() -> i32\n{\n\tvar p = Point { x: 7 };\n\treturn: px(p) + other()\n}\n'},
     ["main.pn", "one.pn", "two.pn", "other.pn"], None),
    ("private_structure_behind_a_pointer_in_a_pub_signature",
     "REJECT",      # `Hidden` is private to lib.pn: the importer may not name it (the unchanged compiler rejects this)
     {"lib.pn": "struct Hidden\n{\n\ta: i32,\n\tb: i32,\n}\n\npub fn poke(h: &Hidden) -> i32\n{\n\treturn: 1\n}\n",
      "main.pn": 'import "lib.pn";\n\nfn relay(h: &Hidden)\n{\n}\n\nfn main() -> i32\n{\n\treturn: 0\n}\n'},
     ["main.pn", "lib.pn"], None),
    ("private_type_captured_through_signature",
     "REJECT",      # no well-typed single-file program corresponds to it: the call passes another type than the function takes
     {"a.pn": "word64 Pair\n{\n\ta: i32,\n\tb: i32,\n}\n\npub fn pair_sum(p: Pair) -> i32\n{\n\treturn: p.a + p.b\n}\n",
      "main.pn": 'import "a.pn";\n\nstruct Pair\n{\n\tx: i64,\n\ty: i64,\n\tz: i64,\n}\n\nfn main() -> i32\n{\n\tvar p = Pair { x: 1, y: 2, z: 3 };\n\tvar s = pair_sum(p);\n\treturn: s\n}\n'},
     ["main.pn", "a.pn"], None),
]


def run_template(args):
    """One hand-written hygiene program: every file order x two entropy streams,
    judged like a generated split against its unsplit (or reduced) reference.
    A rejection with a diagnostic is accepted; a wrong result is not."""
    seed, k = args
    name, single, files, names, ref_names = HYGIENE_TEMPLATES[k]
    rng = rng_for(seed, TAG + "/template", k)
    wd_root = os.path.join(work_root(), "C12", "t%d" % k)
    fresh_dir(wd_root)
    stats = {}
    if single == "REJECT":
        # the program is ill-typed once the two private types are told apart: it has to be rejected
        res = {"k": k, "name": name, "violations": [], "stats": stats, "reference": "rejected"}
        on_disk = {n: t for n, t in files.items() if n in names}
        case = Case(on_disk, sample_orders(names, rng, None), [rng.getrandbits(64)], None, {}, "template:" + name)
        wd = os.path.join(wd_root, "c")
        fresh_dir(wd)
        write_files(wd, on_disk)
        for order in case.orders:
            p = parse_run(penne_run(wd, order, case.entropies[0]))
            stats["runs"] = stats.get("runs", 0) + 1
            if p["verdict"] not in ("rejected",):
                res["violations"].append({"class": "ill_typed_program_accepted", "detail": "order=%s: %s" % (order, p["verdict"]), "kind": "case", "case": case.to_json()})
                break
        shutil.rmtree(wd_root, ignore_errors=True)
        return res
    ref_wd = os.path.join(wd_root, "ref")
    fresh_dir(ref_wd)
    if single is not None:
        write_files(ref_wd, {"main.pn": single})
        r = penne_run(ref_wd, ["main.pn"], rng.getrandbits(64))
    else:
        write_files(ref_wd, {n: files[n] for n in ref_names})
        r = penne_run(ref_wd, ref_names, rng.getrandbits(64))
    p = parse_run(r)
    res = {"k": k, "name": name, "violations": [], "stats": stats, "reference": p["verdict"]}
    if p["verdict"] != "ok":
        raise HarnessError("hygiene template %s: the reference program does not run: %s" % (name, (p.get("stderr") or p.get("detail") or "")[:300]))
    on_disk = {n: t for n, t in files.items() if n in names}
    case = Case(on_disk, sample_orders(names, rng, None), [rng.getrandbits(64) for _ in range(2)], behaviour(p), {}, "template:" + name)
    case.may_reject = name not in ("pub_constant_and_pub_function_of_one_name_from_two_modules", "two_modules_export_structures_of_one_name")
    for cls, detail in evaluate_case(case, os.path.join(wd_root, "c"), check_artifacts=False, stats=stats):
        res["violations"].append({"class": cls, "detail": detail, "kind": "case", "case": case.to_json()})
    shutil.rmtree(wd_root, ignore_errors=True)
    return res


def run_program(args):
    seed, i, tier = args
    wd_root = os.path.join(work_root(), "C12", "p%d" % i)
    fresh_dir(wd_root)
    built = build_program_cases(seed, i, tier)
    stats = {}
    res = {"i": i, "violations": [], "generator_invalid": None, "shape": built["shape"], "stats": stats,
           "negatives": len(built["negatives"]), "neg_by_reason": {}, "linked_hashes": [], "behaviour": None}
    # reference: the unsplit program
    ref_wd = os.path.join(wd_root, "ref")
    fresh_dir(ref_wd)
    write_files(ref_wd, {"main.pn": built["single"]})
    r = penne_run(ref_wd, ["main.pn"], built["ref_entropy"])
    stats["runs"] = 1
    p = parse_run(r)
    if p["verdict"] != "ok":
        # The generator's programs are valid by construction (0 rejected on the
        # pinned tree). If the compiler under test rejects the unsplit program,
        # "the split program behaves exactly like the single-file program" is
        # still decidable: an accepted split differs from a rejected original.
        res["generator_invalid"] = {"verdict": p["verdict"], "detail": (p.get("stderr") or p.get("detail") or "")[:800],
                                    "single": built["single"]}
        if p["verdict"] == "rejected":
            for ci, case in enumerate(built["cases"][:1]):
                wd = os.path.join(wd_root, "c%d" % ci)
                fresh_dir(wd)
                write_files(wd, case.files)
                q = parse_run(penne_run(wd, case.orders[0], case.entropies[0]))
                stats["runs"] = stats.get("runs", 0) + 1
                if q["verdict"] == "ok":
                    res["violations"].append({"class": "split_behaviour_mismatch", "kind": "case", "case": case.to_json(),
                                              "detail": "the unsplit program is rejected (%s) but the split program, order %s, is accepted and runs" %
                                              (p.get("codes"), case.orders[0])})
        shutil.rmtree(wd_root, ignore_errors=True)
        return res
    ref = behaviour(p)
    res["behaviour"] = sha(json.dumps(ref))
    for ci, case in enumerate(built["cases"]):
        case.reference = ref
        v = evaluate_case(case, os.path.join(wd_root, "c%d" % ci), stats=stats)
        for cls, detail in v:
            res["violations"].append({"class": cls, "detail": detail, "kind": "case", "case": case.to_json()})
    # every sixth program (and every one whose `main` has no return type) is also built for real:
    # the executable of the unsplit program and of two file orders of a split, with and without
    # optimisation, behave like the program under lli (undefined behaviour in the IR shows here first)
    void_main = "\nfn main()\n" in "\n" + built["single"]
    if (i % 6 == 0 or void_main) and built["cases"] and os.path.exists("/usr/bin/clang"):
        case = built["cases"][0]
        if not case.cwd:
            bwd = os.path.join(wd_root, "built")
            fresh_dir(bwd)
            write_files(bwd, dict(case.files, **{"zz_single.pn": built["single"]}))
            seen_b = []
            for order in [["zz_single.pn"]] + [o for o in case.orders[:2]]:
                if any(":" in n for n in order):
                    continue
                for opt in ("", "-O2"):
                    r = penne_run(bwd, order, case.entropies[0], extra_args=["-o", "zz_exe"] + (["--backend-args=" + opt] if opt else []), sub="build")
                    stats["runs"] = stats.get("runs", 0) + 1
                    stats["real_builds"] = stats.get("real_builds", 0) + 1
                    if r.rc != 0 or r.sig:
                        b = ("build_failed", r.status(), r.err.decode(errors="replace")[-300:])
                    else:
                        x = run_proc([os.path.join(bwd, "zz_exe")], bwd, base_env())
                        b = ("ok", x.rc if not x.sig else "signal %d" % x.sig, x.out.decode(errors="replace"))
                    seen_b.append((order, opt or "-O0", b))
            want = ("ok", ref[1], ref[2])
            for order, opt, b in seen_b:
                if b != want:
                    res["violations"].append({"class": "built_program_differs", "kind": "case", "case": case.to_json(),
                                              "detail": "built with %s from %s: %r; under lli the program gives %r%s" %
                                              (opt, order, b, want, " (main has no return type)" if void_main else "")})
                    break
    for ni, neg in enumerate(built["negatives"]):
        res["neg_by_reason"][neg["reason"] + "/" + neg["kind"]] = res["neg_by_reason"].get(neg["reason"] + "/" + neg["kind"], 0) + 1
        v = evaluate_negative(neg, os.path.join(wd_root, "n%d" % ni), stats=stats)
        for cls, detail in v:
            res["violations"].append({"class": cls, "detail": detail, "kind": "negative", "negative": neg})
    for hi, h in enumerate(built["histories"]):
        v = evaluate_history(h["spec"], os.path.join(wd_root, "h%d" % hi), h["entropy"], stats=stats)
        for cls, detail in v:
            res["violations"].append({"class": cls, "detail": detail, "kind": "history", "history": h})
    shutil.rmtree(wd_root, ignore_errors=True)
    stats["disturbed_runs"] = DISTURBED[0]
    DISTURBED[0] = 0
    return res


# ----------------------------------------------------------- minimisation --
def minimise_case(case, cls, wd):
    import c12min
    import sys
    return c12min.shrink_case(sys.modules[__name__], case, cls, wd)


def minimise_negative(neg, cls, wd):
    import c12min
    import sys
    return c12min.shrink_negative(sys.modules[__name__], neg, cls, wd)


def minimise_history(h, cls, wd):
    """ddmin over the operations of a history (modules stay as they are)."""
    from fuzzsim import ddmin
    spec = h["spec"]

    def holds(ops):
        s2 = dict(spec)
        s2["ops"] = ops
        return any(k == cls for k, _ in evaluate_history(s2, os.path.join(wd, "m"), h["entropy"]))

    if not holds(spec["ops"]):
        return h, False
    ops = ddmin(list(spec["ops"]), holds, max_tests=60)
    s2 = dict(spec)
    s2["ops"] = ops
    used = {(o["g"], o["m"]) for o in ops}
    return {"spec": s2, "entropy": h["entropy"], "modules_used": sorted(used)}, True


def signature_of(cls, v):
    """Structural signature of a failing input (for the known-findings file)."""
    files = None
    if v["kind"] == "case":
        files = v["case"]["files"]
    elif v["kind"] == "negative":
        files = v["negative"]["files"]
    if v["kind"] == "case" and (v["case"].get("tag") or "").startswith("template:"):
        return cls + "/" + v["case"]["tag"]
    if v["kind"] == "negative" and cls == "compiler_crash" and "ZZ_PROBE2" in (v["negative"].get("probe") or "") and \
            "generator.rs" in v["detail"] and "unreachable" in v["detail"]:
        return cls + "/constant_built_on_a_constant_with_an_undefined_operand"
    if files:
        if cls == "compiler_crash":
            structs = {}
            for name, text in files.items():
                for m in re.finditer(r"^(?:pub )?(?:struct|word\d+) (\w+)\n\{\n(.*?)\n\}", text, re.S | re.M):
                    structs.setdefault(m.group(1), set()).add(m.group(2))
            if any(len(bodies) > 1 for bodies in structs.values()):
                return cls + "/same_named_structures_with_different_members"
            users = [n for n, t in files.items() if re.search(r"\b(print|eprint|format|panic|abort)!", t)]
            if len(users) >= 2:
                return cls + "/two_modules_use_builtins"
        if cls in ("nondeterministic_ir", "nondeterministic_behaviour"):
            if any(len(re.findall(r"^import ", t, re.M)) >= 2 for t in files.values()):
                return cls + "/module_with_two_imports"
    return cls


# ------------------------------------------------------------------- main --
def finding_from(v, i, seed, minimise=True):
    cls = v["class"]
    set_min_budget()
    if os.environ.get("VERIF_NO_MINIMISE") or is_known_signature(PROP, signature_of(cls, v)):
        minimise = False
    record = {"engine": "modsim", "program_index": i, "run_seed": "%d-%s-%s" % (run_seed(seed, TAG, i), v["kind"], sha(v["detail"])[:6]),
              "kind": v["kind"], "observed": {"class": cls, "detail": v["detail"]}}
    wd = os.path.join(work_root(), "C12", "min-%d-%d" % (i, os.getpid()))
    minimised = False
    if v["kind"] == "case":
        case = Case.from_json(v["case"])
        if minimise:
            try:
                case, minimised = minimise_case(case, cls, wd)
            except HarnessError:
                pass
        record["case"] = case.to_json()
        v = dict(v)
        v["case"] = record["case"]
    elif v["kind"] == "negative":
        neg = v["negative"]
        if minimise:
            try:
                neg, minimised = minimise_negative(neg, cls, wd)
            except HarnessError:
                pass
        record["negative"] = neg
        v = dict(v)
        v["negative"] = neg
    else:
        h = v["history"]
        if minimise:
            try:
                h, minimised = minimise_history(h, cls, wd)
            except HarnessError:
                pass
        record["history"] = h
    shutil.rmtree(wd, ignore_errors=True)
    record["minimised"] = minimised
    sig = signature_of(cls, v)
    summary = "%s (program %d, %s): %s" % (cls, i, v["kind"], v["detail"][:500])
    if minimised and v["kind"] == "case":
        summary += "\n  minimised to %d file(s) with %d item(s), %d order(s), %d entropy seed(s)" % (
            len(record["case"]["files"]), len((record["case"].get("structure") or {}).get("items", [])),
            len(record["case"]["orders"]), len(record["case"]["entropies"]))
    if minimised and v["kind"] == "history":
        summary += "\n  minimised to %d operation(s)" % len(record["history"]["spec"]["ops"])
    return Finding(PROP, cls, record, signature=sig, summary=summary)


def _minimise_job(args):
    v, i, seed = args
    return finding_from(v, i, seed)


def run(tier, seed):
    t0 = time.time()
    disable_aslr()
    cfg = TIERS[tier]
    budget = float(os.environ.get("VERIF_BUDGET_S", "0") or 0)
    results = []
    for res in parallel_imap(run_program, ((seed, i, tier) for i in range(cfg["programs"]))):
        results.append(res)
        if len(results) % 250 == 0:
            print("  ... %d programs, %.0fs" % (len(results), time.time() - t0), flush=True)
        if budget and time.time() - t0 > budget:
            break
    raw = []
    gen_invalid = []
    shapes = set()
    behaviours = set()
    stats = {}
    neg_by = {}
    pert_count = {}
    multi_import = 0
    n_cases = 0
    for res in results:
        if res["generator_invalid"]:
            gen_invalid.append(res)
            for v in res["violations"]:
                raw.append((v, res["i"]))
            continue
        behaviours.add(res["behaviour"])
        for s in res["shape"]:
            n_cases += 1
            shapes.add((s["k"], tuple(s["perturbations"]), s["max_imports"], s["layout"]))
            for p in s["perturbations"]:
                pert_count[p] = pert_count.get(p, 0) + 1
            if s["max_imports"] >= 2:
                multi_import += 1
        for k, v in res["stats"].items():
            stats[k] = stats.get(k, 0) + v
        for k, v in res["neg_by_reason"].items():
            neg_by[k] = neg_by.get(k, 0) + v
        for v in res["violations"]:
            raw.append((v, res["i"]))
    template_runs = 0
    for res in parallel_map(run_template, [(seed, k) for k in range(len(HYGIENE_TEMPLATES))]):
        template_runs += res["stats"].get("runs", 0) + 1
        for v in res["violations"]:
            raw.append((v, 10**6 + res["k"]))
    # minimise at most a few per class (the rest are reported unminimised)
    per_class = {}
    jobs = []
    rest = []
    for v, i in raw:
        n = per_class.get(v["class"], 0)
        per_class[v["class"]] = n + 1
        if n < 3:
            jobs.append((v, i, seed))
        else:
            rest.append(finding_from(v, i, seed, minimise=False))
    findings = parallel_map(_minimise_job, jobs) + rest
    if len(gen_invalid) > max(2, len(results) // 50) and not raw:
        g = gen_invalid[0]["generator_invalid"]
        raise HarnessError("generator produced %d invalid programs of %d, e.g. %s" % (len(gen_invalid), len(results), g["detail"][:600]))
    n_viol, n_known = report_findings(PROP, findings)
    wall = time.time() - t0
    runs = stats.get("runs", 0) + stats.get("histories", 0)
    sample = None
    if results:
        b = build_program_cases(seed, results[0]["i"], tier)
        c = b["cases"][0]
        sample = {"program_index": b["i"], "unsplit_program_head": b["single"][:600], "files": {k: v[:400] for k, v in c.files.items()},
                  "orders": c.orders[:3], "entropy_seeds": c.entropies, "negative": {k: b["negatives"][0][k] for k in ("module_file", "item", "kind", "reason", "expect_code")} if b["negatives"] else None,
                  "history_ops": b["histories"][0]["spec"]["ops"] if b["histories"] else None}
    coverage = {
        "evaluations": runs,
        "distinct_nontrivial": len(shapes),
        "rule": "one evaluation = one execution of the real penne CLI (run / emit) or one module history through the real Compiler (pworker); distinct_nontrivial = distinct (module count, perturbation set, max imports per module, directory layout) shapes among the split configurations, each of them a >=2-module program with cross-module references",
        "samples": [sample],
        "exhaustive": False,
        "file_orders_exhaustive_per_split": cfg["orders"] is None,
        "programs": len(results),
        "programs_planned": cfg["programs"],
        "generator_invalid_programs": len(gen_invalid),
        "split_configurations": n_cases,
        "splits_with_module_having_2plus_imports": multi_import,
        "distinct_program_behaviours": len(behaviours),
        "perturbations": pert_count,
        "negative_variants": sum(neg_by.values()),
        "negative_variants_by_reason_and_kind": neg_by,
        "file_orders_executed": stats.get("orders", 0),
        "distinct_schedules_executed": stats.get("schedules", 0),
        "schedule_measure": "one schedule = (file order, entropy stream) of one split configuration; a history = one operation sequence through one Compiler",
        "histories": stats.get("histories", 0),
        "cli_runs": stats.get("runs", 0),
        "llvm_as_checks": stats.get("llvm_as", 0),
        "real_clang_builds_executed": stats.get("real_builds", 0),
        "runs_repeated_after_the_backend_was_killed_from_outside": stats.get("disturbed_runs", 0),
        "hygiene_templates": len(HYGIENE_TEMPLATES),
        "hygiene_template_runs": template_runs,
        "runs_per_hour": rate_per_hour(runs, wall),
        "seeds_per_hour": rate_per_hour(len(results), wall),
        "simulated_time": "none: penne has no clock; logical time is the index of the module in the file order / history",
        "fault_kinds": {"entropy": {"configured": stats.get("runs", 0), "fired": stats.get("runs", 0)},
                        "file_order": {"configured": n_cases}, "history_abandon_or_failing_module": {"configured": stats.get("histories", 0)}},
        "aslr_disabled": aslr_disabled(),
        "components": COMPONENTS,
        "known_findings_matched": n_known,
        "violations_by_class": per_class,
    }
    write_evidence(PROP, tier, seed, "exploration", coverage, wall, n_viol, [
        "the generator's programs are valid, terminating and free of undefined behaviour (checked: the unsplit program must be accepted and run by the real compiler, %d of %d were)" % (len(results) - len(gen_invalid), len(results)),
        "reference for a split program is the real compiler on the unsplit program; lli executes IR deterministically",
        "llvm-as is a sound judge of IR validity",
    ])
    print("C12 %s: %d programs, %d split configurations (%d shapes), %d CLI runs, %d negatives, %d histories, %d violation(s), %d known, %.1fs"
          % (tier, len(results), n_cases, len(shapes), stats.get("runs", 0), sum(neg_by.values()), stats.get("histories", 0), n_viol, n_known, wall))
    return 1 if n_viol else 0


def replay(record):
    disable_aslr()
    wd = os.path.join(work_root(), "C12", "replay-%d" % os.getpid())
    cls = record["observed"]["class"]
    if record["kind"] == "case" and (record["case"].get("tag") or "").startswith("template:") and not record["case"].get("reference"):
        # a program that has to be rejected
        case = Case.from_json(record["case"])
        fresh_dir(wd)
        write_files(wd, case.files)
        v = []
        for order in case.orders:
            p = parse_run(penne_run(wd, order, case.entropies[0]))
            if p["verdict"] != "rejected":
                v.append(("ill_typed_program_accepted", "order=%s: %s" % (order, p["verdict"])))
                break
    elif record["kind"] == "case":
        v = evaluate_case(Case.from_json(record["case"]), wd)
    elif record["kind"] == "negative":
        v = evaluate_negative(record["negative"], wd)
    else:
        v = evaluate_history(record["history"]["spec"], wd, record["history"]["entropy"])
    shutil.rmtree(wd, ignore_errors=True)
    for c, d in v:
        print("replay: %s: %s" % (c, d[:600]))
    if any(c == cls for c, _ in v):
        print("VIOLATION property=%s replay=%s" % (PROP, record.get("_path", "?")))
        return 1
    print("replay: recorded class %s not reproduced" % cls)
    return 0 if not v else 1


def determinism_log(seed, indices):
    lines = []
    for res in parallel_map(run_program, [(seed, i, "quick") for i in indices]):
        lines.append("C12 %d beh=%s viol=%s stats=%s neg=%s" % (
            res["i"], res["behaviour"], sorted((v["class"], v["detail"]) for v in res["violations"]),
            sorted(res["stats"].items()), sorted(res["neg_by_reason"].items())))
    return lines
