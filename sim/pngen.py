"""pngen -- seeded generator of valid, terminating, UB-free Penne programs with
a known dependency graph between their top-level items, and of the ways to
split one program over several modules (the *workload* of the C12 / C13 / C18
simulations; it decides nothing by itself -- the reference for a split program
is always the real compiler on the unsplit program).

Every choice is drawn from the random.Random passed in.
"""
import random
import re

IDENT = re.compile(r"[A-Za-z_][A-Za-z0-9_]*")
MOD = 1000


class Item:
    def __init__(self, name, kind, body, head=None, sig=None):
        self.name = name
        self.kind = kind          # const | struct | word | fn
        self.body = body          # text without the leading `pub `
        self.head = head if head is not None else body  # exported part
        self.sig = sig            # for fn: call shape
        self.deps = set()
        self.xdeps = set()

    def text(self, pub):
        return ("pub " if pub else "") + self.body


class Program:
    def __init__(self):
        self.items = []
        self.by_name = {}

    def add(self, item):
        self.items.append(item)
        self.by_name[item.name] = item
        return item

    def finish(self):
        names = set(self.by_name)
        for it in self.items:
            it.deps = {w for w in IDENT.findall(strip_strings(it.body)) if w in names and w != it.name}
            it.xdeps = {w for w in IDENT.findall(strip_strings(it.head)) if w in names and w != it.name}
        return self

    def single_file(self, order=None):
        items = self.items if order is None else order
        return "\n".join(it.text(False) for it in items)


def strip_strings(text):
    return re.sub(r'"(?:[^"\\]|\\.)*"', '""', text)


def _fn(name, params, ret, lines, extern=False):
    head = "%sfn %s(%s)%s" % ("extern " if extern else "", name, params, (" -> " + ret) if ret else "")
    body = head + "\n{\n" + "".join("\t" + l + "\n" for l in lines) + "}\n"
    return body, head


WIDE_CONSTS = [
    ("i8", "-100", "%s as i32"), ("i8", "-128", "%s as i32"), ("i16", "-30000", "%s as i32"), ("u16", "65000", "%s as i32"),
    ("u32", "4000000000", "(%s %% 1000) as i32"), ("u64", "18000000000000000000", "(%s %% 1000) as i32"),
    ("i128", "170141183460469231731687303715884105000", "(%s %% 1000) as i32"),
    ("u128", "340282366920938463463374607431768211000", "(%s %% 1000) as i32"),
    ("i64", "-9000000000", "(%s %% 1000) as i32"), ("u32", "0xFFFF_FFF0", "(%s %% 1000) as i32"),
    ("u8", "0b1010_1010", "%s as i32"), ("u8", "255", "%s as i32"), ("i32", "-2147483647", "(%s %% 1000)"),
]


def generate(rng, prefix="", n_funcs=None, with_main=True, rich=True):
    """Build one program. Names are `prefix`+K0, N0, T0, S0, W0, f0..."""
    P = Program()
    px = prefix
    label = [0]

    def tag():
        label[0] += 1
        return "#%s%d" % (px, label[0])

    # ---- constants -------------------------------------------------------
    kvals = {}
    n_k = rng.randint(1, 3)
    for i in range(n_k):
        name = "%sK%d" % (px, i)
        if i > 0 and rng.random() < 0.5:
            base = "%sK%d" % (px, rng.randrange(i))
            add = rng.randint(1, 9)
            kvals[name] = kvals[base] + add
            P.add(Item(name, "const", "const %s: i32 = %s + %d;\n" % (name, base, add)))
        else:
            kvals[name] = rng.randint(2, 40)
            P.add(Item(name, "const", "const %s: i32 = %d;\n" % (name, kvals[name])))
    nvals = {}
    n_n = rng.randint(1, 3)
    for i in range(n_n):
        name = "%sN%d" % (px, i)
        if i > 0 and rng.random() < 0.5:
            base = "%sN%d" % (px, rng.randrange(i))
            add = rng.randint(1, 2)
            nvals[name] = nvals[base] + add
            P.add(Item(name, "const", "const %s: usize = %s + %d;\n" % (name, base, add)))
        else:
            nvals[name] = rng.randint(2, 5)
            P.add(Item(name, "const", "const %s: usize = %d;\n" % (name, nvals[name])))
    xconsts = []   # (name, expression usable as an i32 term)
    if rng.random() < 0.5:
        name = "%sB0" % px
        P.add(Item(name, "const", "const %s: bool = %s;\n" % (name, rng.choice(["true", "false"]))))
        xconsts.append((name, None))
    if rng.random() < 0.5:
        name = "%sU0" % px
        P.add(Item(name, "const", "const %s: u8 = %d;\n" % (name, rng.randint(1, 250))))
        xconsts.append((name, "%s as i32" % name))
    if rng.random() < 0.4:
        name = "%sL0" % px
        P.add(Item(name, "const", "const %s: i64 = %d;\n" % (name, rng.randint(3 * 10**9, 9 * 10**9))))
        xconsts.append((name, "(%s %% 1000) as i32" % name))
    # constants of every width and sign, at the edges of their ranges: their
    # values are re-evaluated in every module that imports them
    for j in range(rng.choice([0, 0, 1, 1, 2])):
        ty, val, term = rng.choice(WIDE_CONSTS)
        name = "%sM%d" % (px, j)
        P.add(Item(name, "const", "const %s: %s = %s;\n" % (name, ty, val)))
        xconsts.append((name, term % name))
    tabs = {}
    for i in range(rng.randint(0, 2)):
        name = "%sT%d" % (px, i)
        n = rng.choice(sorted(nvals))
        vals = [rng.randint(0, 9) for _ in range(nvals[n])]
        tabs[name] = n
        P.add(Item(name, "const", "const %s: [%s]i32 = [%s];\n" % (name, n, ", ".join(map(str, vals)))))

    # ---- structures ------------------------------------------------------
    structs = {}   # name -> list of (member, type, kind)
    words = []
    if rng.random() < 0.8:
        name = "%sW0" % px
        words.append(name)
        body = "word64 %s\n{\n\tx: i32,\n\ty: i32,\n}\n" % name
        P.add(Item(name, "word", body))
        if rng.random() < 0.4:
            name2 = "%sW1" % px
            words.append(name2)
            body = "word128 %s\n{\n\tfrom: %s,\n\tto: %s,\n}\n" % (name2, name, name)
            P.add(Item(name2, "word", body))
    small_words = []
    if rng.random() < 0.4:
        h0 = "%sH0" % px
        P.add(Item(h0, "word", "word16 %s\n{\n\tlo: u8,\n\thi: u8,\n}\n" % h0))
        small_words.append(h0)
        if rng.random() < 0.5:
            h1 = "%sH1" % px
            P.add(Item(h1, "word", "word32 %s\n{\n\ta: i16,\n\tb: %s,\n}\n" % (h1, h0)))
            small_words.append(h1)
    ptr_struct = None
    if rng.random() < 0.35:
        ptr_struct = "%sP0" % px
        P.add(Item(ptr_struct, "struct", "struct %s\n{\n\tp: &i32,\n\tn: i32,\n}\n" % ptr_struct))
    opaque = None
    if rng.random() < 0.3:
        opaque = "%sO0" % px
        P.add(Item(opaque, "struct", "struct %s;\n" % opaque))
    for i in range(rng.randint(1, 3)):
        name = "%sS%d" % (px, i)
        members = [("a", "i32", "int")]
        if rng.random() < 0.7:
            n = rng.choice(sorted(nvals))
            members.append(("b", "[%s]i32" % n, ("arr", n)))
        if rng.random() < 0.6:
            members.append(("c", "u8", "byte"))
        if i > 0 and rng.random() < 0.6:
            inner = "%sS%d" % (px, rng.randrange(i))
            members.append(("inner", inner, ("struct", inner)))
        if words and rng.random() < 0.5:
            members.append(("w", words[0], ("word", words[0])))
        members.append(("n", "i32", "int"))
        structs[name] = members
        body = "struct %s\n{\n%s}\n" % (name, "".join("\t%s: %s,\n" % (m, t) for m, t, _ in members))
        P.add(Item(name, "struct", body))

    def struct_literal(name):
        parts = []
        for m, t, k in structs[name]:
            if k == "int":
                parts.append("%s: %d" % (m, rng.randint(0, 50)))
            elif k == "byte":
                parts.append("%s: %d" % (m, rng.randint(0, 200)))
            elif k[0] == "arr":
                parts.append("%s: [%s]" % (m, ", ".join(str(rng.randint(0, 9)) for _ in range(nvals[k[1]]))))
            elif k[0] == "struct":
                parts.append("%s: %s" % (m, struct_literal(k[1])))
            elif k[0] == "word":
                parts.append("%s: %s" % (m, word_literal(k[1])))
        return "%s { %s }" % (name, ", ".join(parts))

    def word_literal(name, named=False):
        if name.endswith("W1"):
            w0 = words[0]
            return "%s { from: %s, to: %s }" % (name, word_literal(w0, named), word_literal(w0, named))
        x = rng.choice(sorted(kvals)) if named and rng.random() < 0.6 else "%d" % rng.randint(0, 30)
        return "%s { x: %s, y: %d }" % (name, x, rng.randint(0, 30))

    def struct_read_expr(var, name, depth=0):
        terms = []
        for m, t, k in structs[name]:
            if k == "int":
                terms.append("%s.%s" % (var, m))
            elif k == "byte":
                terms.append("%s.%s as i32" % (var, m))
            elif k[0] == "arr":
                terms.append("%s.%s[%d]" % (var, m, rng.randrange(nvals[k[1]])))
            elif k[0] == "struct" and depth < 2:
                terms.append(struct_read_expr("%s.%s" % (var, m), k[1], depth + 1))
            elif k[0] == "word":
                terms.append("%s.%s.x" % (var, m))
        rng.shuffle(terms)
        return " + ".join(terms[:4])

    # ---- constants of structure / word type ------------------------------
    sconsts = {}   # struct name -> constant name
    wconsts = {}   # word name -> constant name
    warrays = {}   # constant name -> word name
    if rng.random() < 0.45:
        sname = rng.choice(sorted(structs))
        cname = "%sD0" % px
        sconsts[sname] = cname
        P.add(Item(cname, "const", "const %s: %s = %s;\n" % (cname, sname, struct_literal(sname))))
    if words and rng.random() < 0.4:
        wname = words[0]
        cname = "%sQ0" % px
        wconsts[wname] = cname
        P.add(Item(cname, "const", "const %s: %s = %s;\n" % (cname, wname, word_literal(wname, True))))
    if words and rng.random() < 0.3:
        cname = "%sQA" % px
        warrays[cname] = words[0]
        P.add(Item(cname, "const", "const %s: [2]%s = [%s, %s];\n" % (cname, words[0], word_literal(words[0], True), word_literal(words[0], True))))

    # ---- functions -------------------------------------------------------
    if n_funcs is None:
        n_funcs = rng.randint(4, 11)
    funcs = []     # Items with .sig
    ii_funcs = []  # names of (i32,i32)->i32 functions usable in expressions
    kinds = ["arith", "arith", "sum", "extsum", "ptr", "sget", "sset", "word", "mutual", "arrmut",
             "flag", "printv", "len", "guard", "eprint"]
    if not words:
        kinds.remove("word")
    kinds += ["sizeof", "sizeof", "sizeof", "noop", "noop", "noop", "noop", "sizedptr", "grid", "shared_text", "wide"]
    if warrays:
        kinds.append("wordarr")
    if opaque:
        kinds.append("opaque")
    if small_words:
        kinds.append("smallword")
    if ptr_struct:
        kinds += ["pget", "pset"]
    i = 0
    while i < n_funcs:
        kind = rng.choice(kinds)
        name = "%sf%d" % (px, i)
        do_print = rich and rng.random() < 0.45
        # `extern` selects the C calling convention; only primitives and
        # pointers may appear in such a signature
        ext = rng.random() < 0.25
        if kind == "arith":
            terms = ["a * %d" % rng.randint(2, 7), "b"]
            if rng.random() < 0.7:
                terms.append(rng.choice(sorted(kvals)))
            xs_terms = [t for _n, t in xconsts if t]
            if xs_terms and rng.random() < 0.5:
                terms.append(rng.choice(xs_terms))
            if ii_funcs and rng.random() < 0.6:
                terms.append("%s(a %% 7, %d)" % (rng.choice(ii_funcs), rng.randint(0, 9)))
            if ii_funcs and rng.random() < 0.3:
                terms.append("%s(b %% 5, a %% 3)" % rng.choice(ii_funcs))
            rng.shuffle(terms)
            lines = ["var r = (%s) %% %d;" % (" + ".join(terms), MOD)]
            if do_print:
                lines.append('print!("%s ", r, "\\n");' % tag())
            lines.append("return: r")
            body, head = _fn(name, "a: i32, b: i32", "i32", lines, ext)
            it = P.add(Item(name, "fn", body, head, ("ii_i",)))
            ii_funcs.append(name)
        elif kind == "sum":
            lines = ["var total = 0;", "var i = 0;", "{", "\tif i == |xs|", "\t\tgoto done;",
                     "\ttotal = (total + xs[i] * (i as i32 + %d)) %% %d;" % (rng.randint(1, 3), MOD),
                     "\ti = i + 1;", "\tloop;", "}", "done:"]
            if do_print:
                lines.append('print!("%s ", total, "\\n");' % tag())
            lines.append("return: total")
            body, head = _fn(name, "xs: []i32", "i32", lines)
            it = P.add(Item(name, "fn", body, head, ("slice_i",)))
        elif kind == "extsum":
            # C calling convention: an array view is a bare pointer there, so
            # the length travels as a separate argument
            lines = ["var total = bias;", "var i: usize = 0;", "{", "\tif i == n", "\t\tgoto done;",
                     "\ttotal = (total + xs[i] * %d) %% %d;" % (rng.randint(1, 3), MOD),
                     "\ti = i + 1;", "\tloop;", "}", "done:", "return: total"]
            body, head = _fn(name, "xs: []i32, n: usize, bias: i32", "i32", lines, True)
            it = P.add(Item(name, "fn", body, head, ("extslice_i",)))
        elif kind == "ptr":
            k = rng.choice(sorted(kvals))
            lines = ["p = (p + d + %s) %% %d;" % (k, MOD)]
            body, head = _fn(name, "p: &i32, d: i32", None, lines, ext)
            it = P.add(Item(name, "fn", body, head, ("ptr_v",)))
        elif kind == "sget":
            s = rng.choice(sorted(structs))
            lines = ["var r = (%s) %% %d;" % (struct_read_expr("s", s), MOD)]
            if do_print:
                lines.append('print!("%s ", r, "\\n");' % tag())
            if rich and rng.random() < 0.3:
                lines.append('print!("%s ", s, "\\n");' % tag())      # prints the structure's name
            lines.append("return: r")
            body, head = _fn(name, "s: %s" % s, "i32", lines)
            it = P.add(Item(name, "fn", body, head, ("sget", s)))
        elif kind == "sset":
            s = rng.choice(sorted(structs))
            lines = ["s.a = (s.a + v) %% %d;" % MOD, "s.n = v;"]
            body, head = _fn(name, "s: &%s, v: i32" % s, None, lines)
            it = P.add(Item(name, "fn", body, head, ("sset", s)))
        elif kind == "word":
            w = rng.choice(words)
            if w.endswith("W1"):
                expr = "w.from.x * 2 + w.to.y"
            else:
                expr = "w.x * %d + w.y" % rng.randint(2, 5)
            lines = ["return: (%s) %% %d" % (expr, MOD)]
            body, head = _fn(name, "w: %s" % w, "i32", lines)
            it = P.add(Item(name, "fn", body, head, ("word_i", w)))
        elif kind == "wordarr":
            c = sorted(warrays)[0]
            lines = ["var w = ws[1];", "return: (w.x * %d + |ws| as i32) %% %d" % (rng.randint(2, 5), MOD)]
            body, head = _fn(name, "ws: []%s" % warrays[c], "i32", lines)
            it = P.add(Item(name, "fn", body, head, ("wordarr", c)))
        elif kind == "sizeof":
            t = rng.choice(sorted(structs) + words + small_words)
            body, head = _fn(name, "v: i32", "i32", ["return: (v + |:%s| as i32) %% %d" % (t, MOD)])
            it = P.add(Item(name, "fn", body, head, ("i_i",)))
        elif kind == "noop":
            # a parameter and an empty body
            body, head = _fn(name, "code: i32", None, [])
            it = P.add(Item(name, "fn", body, head, ("print_v",)))
        elif kind == "sizedptr":
            n = rng.choice(sorted(nvals))
            body, head = _fn(name, "xs: &[%s]i32, v: i32" % n, "i32", ["return: (|xs| as i32 * %d + v) %% %d" % (rng.randint(2, 9), MOD)])
            it = P.add(Item(name, "fn", body, head, ("sizedptr", n)))
        elif kind == "grid":
            n = rng.choice(sorted(nvals))
            body, head = _fn(name, "m: [][%s]i32" % n, "i32", ["return: (m[1][0] * %d + m[0][1]) %% %d" % (rng.randint(2, 9), MOD)])
            it = P.add(Item(name, "fn", body, head, ("grid", n)))
        elif kind == "shared_text" and rich:
            # the same literal bytes in several functions (and so in several modules)
            a, b = rng.sample(["alpha\\n", "beta\\n", "gamma\\n", "delta\\n"], 2)
            lines = ['print!("%s");' % a, 'print!("%s");' % b]
            body, head = _fn(name, "v: i32", None, lines)
            it = P.add(Item(name, "fn", body, head, ("print_v",)))
        elif kind == "opaque":
            body, head = _fn(name, "h: &%s, v: i32" % opaque, "i32", ["return: v + 1"])
            it = P.add(Item(name, "fn", body, head, ("uncallable",)))
        elif kind == "smallword":
            w = rng.choice(small_words)
            if w.endswith("H1"):
                expr = "w.a as i32 + w.b.lo as i32 * 2 + w.b.hi as i32"
            else:
                expr = "w.lo as i32 * %d + w.hi as i32" % rng.randint(2, 5)
            body, head = _fn(name, "w: %s" % w, "i32", ["return: (%s) %% %d" % (expr, MOD)])
            it = P.add(Item(name, "fn", body, head, ("smallword_i", w)))
        elif kind == "pget":
            lines = ["var r = (s.p + s.n * %d) %% %d;" % (rng.randint(1, 4), MOD)]
            if do_print:
                lines.append('print!("%s ", r, "\\n");' % tag())
            lines.append("return: r")
            body, head = _fn(name, "s: %s" % ptr_struct, "i32", lines)
            it = P.add(Item(name, "fn", body, head, ("pget",)))
        elif kind == "pset":
            body, head = _fn(name, "s: &%s, v: i32" % ptr_struct, None, ["s.n = (s.n + v) %% %d;" % MOD])
            it = P.add(Item(name, "fn", body, head, ("pset",)))
        elif kind == "mutual" and i + 1 < n_funcs:
            other = "%sf%d" % (px, i + 1)
            m1, m2 = rng.randint(1, 3), rng.randint(2, 3)
            lines = ["var r = acc;", "if n > 0", "{",
                     "\tr = %s(n - 1, (acc + n * %d) %% %d);" % (other, m1, MOD), "}", "return: r"]
            body, head = _fn(name, "n: i32, acc: i32", "i32", lines)
            it = P.add(Item(name, "fn", body, head, ("mut_pair",)))
            funcs.append(it)
            lines = ["var r = acc;", "if n > 0", "{",
                     "\tr = %s(n - 1, (acc * %d + 1) %% %d);" % (name, m2, MOD), "}"]
            if do_print:
                lines.append('print!("%s ", n, "\\n");' % tag())
            lines.append("return: r")
            body, head = _fn(other, "n: i32, acc: i32", "i32", lines)
            it = P.add(Item(other, "fn", body, head, ("mut_pair",)))
            i += 1
        elif kind == "arrmut":
            k = rng.choice(sorted(kvals))
            lines = ["var i = 0;", "{", "\tif i == |xs|", "\t\tgoto end;",
                     "\txs[i] = (xs[i] + %s) %% 100;" % k, "\ti = i + 1;", "\tloop;", "}", "end:"]
            body, head = _fn(name, "xs: &[]i32", None, lines)
            it = P.add(Item(name, "fn", body, head, ("arrmut",)))
        elif kind == "flag":
            bconst = [n for n, t in xconsts if t is None]
            cond = "if flag == %s" % (bconst[0] if bconst and rng.random() < 0.6 else "true")
            lines = ["var r = a;", cond, "{", "\tr = a + %d;" % rng.randint(1, 99), "}",
                     "else", "{", "\tr = a + %d;" % rng.randint(100, 199), "}", "return: r"]
            body, head = _fn(name, "flag: bool, a: i32", "i32", lines)
            it = P.add(Item(name, "fn", body, head, ("flag",)))
        elif kind == "wide":
            # parameters and results of every width cross the module boundary
            if rng.random() < 0.5:
                lines = ["var r: i64 = a * %d + (b as i64) - (c as i64);" % rng.randint(2, 9), "return: r"]
                body, head = _fn(name, "a: i64, b: u8, c: i8", "i64", lines, ext)
                it = P.add(Item(name, "fn", body, head, ("wide", "i64")))
            else:
                lines = ["var r: i128 = a / %d + (s as i128);" % rng.randint(3, 9), "if up == true", "{", "\tr = r + 1;", "}", "return: r"]
                body, head = _fn(name, "a: i128, s: i16, up: bool", "i128", lines)
                it = P.add(Item(name, "fn", body, head, ("wide", "i128")))
        elif kind == "printv" and rich:
            lines = ['print!("%s v=", v, " ", %s, "\\n");' % (tag(), rng.choice(["true", "'x'", "7u8", "12usize"]))]
            body, head = _fn(name, "v: i32", None, lines, ext)
            it = P.add(Item(name, "fn", body, head, ("print_v",)))
        elif kind == "eprint" and rich:
            lines = ['eprint!("%s e=", v, "\\n");' % tag()]
            body, head = _fn(name, "v: i32", None, lines)
            it = P.add(Item(name, "fn", body, head, ("print_v",)))
        elif kind == "len" and rich:
            lines = ['var text = format!("%s", v, "%s");' % (rng.choice(["v=", "value ", ""]), rng.choice(["!", "\\n", ""])),
                     "var r = |text| as i32;", "return: r"]
            body, head = _fn(name, "v: i32", "i32", lines)
            it = P.add(Item(name, "fn", body, head, ("i_i",)))
        elif kind == "guard" and rich:
            which = rng.choice(['panic!("%s unreachable\\n");' % tag(), "abort!();"])
            lines = ["if v > %d" % (MOD * 10), "{", "\t" + which, "}", "return: v + 1"]
            body, head = _fn(name, "v: i32", "i32", lines, ext)
            it = P.add(Item(name, "fn", body, head, ("i_i",)))
        else:
            continue
        funcs.append(it)
        i += 1

    # a function *head*: declared here, resolved at link time (libc's abs)
    if rich and not px and rng.random() < 0.35:
        P.add(Item("abs", "fn", "extern fn abs(x: i32) -> i32;\n", "extern fn abs(x: i32) -> i32;", ("i_i",)))
        funcs.append(P.by_name["abs"])

    # ---- main ------------------------------------------------------------
    if with_main:
        lines = ["var acc: i32 = %d;" % rng.randint(0, 9)]
        arrs = {}
        svars = {}
        wvars = {}

        def arr_var():
            n = rng.choice(sorted(nvals))
            if n not in arrs:
                v = "arr%d" % len(arrs)
                arrs[n] = v
                lines.append("var %s: [%s]i32 = [%s];" % (v, n, ", ".join(str(rng.randint(0, 9)) for _ in range(nvals[n]))))
            return arrs[n]

        def s_var(s):
            if s not in svars:
                v = "s%d" % len(svars)
                svars[s] = v
                lines.append("var %s = %s;" % (v, struct_literal(s)))
            return svars[s]

        def w_var(w):
            if w not in wvars:
                v = "w%d" % len(wvars)
                wvars[w] = v
                lines.append("var %s = %s;" % (v, word_literal(w)))
            return wvars[w]

        called_by_others = set()
        for it in funcs:
            called_by_others |= {w for w in IDENT.findall(strip_strings(it.body)) if w != it.name}
        calls = [it for it in funcs if it.name not in called_by_others or rng.random() < 0.5]
        rng.shuffle(calls)
        extra = [rng.choice(calls) for _ in range(rng.randint(0, 4))] if calls else []
        for it in calls + extra:
            sig = it.sig
            f = it.name
            if sig[0] == "ii_i":
                lines.append("acc = (acc + %s(%d, %d)) %% %d;" % (f, rng.randint(0, 20), rng.randint(0, 20), MOD))
            elif sig[0] == "slice_i":
                if tabs and rng.random() < 0.4:
                    lines.append("acc = (acc + %s(%s)) %% %d;" % (f, rng.choice(sorted(tabs)), MOD))
                else:
                    lines.append("acc = (acc + %s(%s)) %% %d;" % (f, arr_var(), MOD))
            elif sig[0] == "extslice_i":
                v = arr_var()
                lines.append("acc = (acc + %s(%s, |%s|, %d)) %% %d;" % (f, v, v, rng.randint(0, 50), MOD))
            elif sig[0] == "ptr_v":
                lines.append("%s(&acc, %d);" % (f, rng.randint(0, 30)))
            elif sig[0] == "wordarr":
                lines.append("acc = (acc + %s(%s)) %% %d;" % (f, sig[1], MOD))
            elif sig[0] == "sget" and sig[1] in sconsts and rng.random() < 0.5:
                lines.append("acc = (acc + %s(%s)) %% %d;" % (f, sconsts[sig[1]], MOD))
            elif sig[0] == "word_i" and sig[1] in wconsts and rng.random() < 0.5:
                lines.append("acc = (acc + %s(%s)) %% %d;" % (f, wconsts[sig[1]], MOD))
            elif sig[0] == "sget":
                if rng.random() < 0.3:
                    lines.append("acc = (acc + %s(%s)) %% %d;" % (f, struct_literal(sig[1]), MOD))
                else:
                    lines.append("acc = (acc + %s(%s)) %% %d;" % (f, s_var(sig[1]), MOD))
            elif sig[0] == "sset":
                v = s_var(sig[1])
                lines.append("%s(&%s, %d);" % (f, v, rng.randint(0, 30)))
                lines.append("acc = (acc + %s.a + %s.n) %% %d;" % (v, v, MOD))
            elif sig[0] == "word_i":
                if rng.random() < 0.4:
                    lines.append("acc = (acc + %s(%s)) %% %d;" % (f, word_literal(sig[1]), MOD))
                else:
                    lines.append("acc = (acc + %s(%s)) %% %d;" % (f, w_var(sig[1]), MOD))
            elif sig[0] == "sizedptr":
                n = sig[1]
                if n not in arrs:
                    v = "arr%d" % len(arrs)
                    arrs[n] = v
                    lines.append("var %s: [%s]i32 = [%s];" % (v, n, ", ".join(str(rng.randint(0, 9)) for _ in range(nvals[n]))))
                lines.append("acc = (acc + %s(&%s, %d)) %% %d;" % (f, arrs[n], rng.randint(0, 9), MOD))
            elif sig[0] == "grid":
                n = sig[1]
                gv = "grid_%s" % n.lower()
                if gv not in svars:
                    svars[gv] = gv
                    rows = ["[%s]" % ", ".join(str(rng.randint(0, 9)) for _ in range(nvals[n])) for _ in range(2)]
                    lines.append("var %s: [2][%s]i32 = [%s];" % (gv, n, ", ".join(rows)))
                lines.append("acc = (acc + %s(%s)) %% %d;" % (f, gv, MOD))
            elif sig[0] == "uncallable":
                pass
            elif sig[0] == "smallword_i":
                if sig[1].endswith("H1"):
                    lit = "%s { a: %d, b: %s { lo: %d, hi: %d } }" % (sig[1], rng.randint(0, 99), small_words[0], rng.randint(0, 9), rng.randint(0, 9))
                else:
                    lit = "%s { lo: %d, hi: %d }" % (sig[1], rng.randint(0, 9), rng.randint(0, 9))
                lines.append("acc = (acc + %s(%s)) %% %d;" % (f, lit, MOD))
            elif sig[0] in ("pget", "pset"):
                if "ps" not in svars:
                    svars["ps"] = "ps"
                    lines.append("var px: i32 = %d;" % rng.randint(0, 50))
                    lines.append("var ps = %s { p: &px, n: %d };" % (ptr_struct, rng.randint(0, 9)))
                if sig[0] == "pget":
                    lines.append("acc = (acc + %s(ps)) %% %d;" % (f, MOD))
                else:
                    lines.append("%s(&ps, %d);" % (f, rng.randint(0, 9)))
                    lines.append("acc = (acc + ps.n) %% %d;" % MOD)
            elif sig[0] == "mut_pair":
                lines.append("acc = (acc + %s(%d, %d)) %% %d;" % (f, rng.randint(0, 7), rng.randint(0, 9), MOD))
            elif sig[0] == "arrmut":
                v = arr_var()
                lines.append("%s(&%s);" % (f, v))
                lines.append("acc = (acc + %s[0] + %s[1]) %% %d;" % (v, v, MOD))
            elif sig[0] == "flag":
                lines.append("acc = (acc + %s(%s, %d)) %% %d;" % (f, rng.choice(["true", "false"]), rng.randint(0, 50), MOD))
            elif sig[0] == "wide":
                if sig[1] == "i64":
                    call = "%s(%d, %d, %d)" % (f, rng.choice([-5000000000, 7000000000, -3]), rng.choice([0, 200, 255]), rng.choice([-128, -7, 127]))
                else:
                    call = "%s(%s, %d, %s)" % (f, rng.choice(["-170141183460469231731687303715884105000", "99999999999999999999999", "-12"]),
                                               rng.choice([-32768, -9, 32767]), rng.choice(["true", "false"]))
                lines.append("acc = (acc + ((%s %% 1000) as i32) + 2000) %% %d;" % (call, MOD))
            elif sig[0] == "print_v":
                lines.append("%s(acc);" % f)
            elif sig[0] == "i_i":
                lines.append("acc = (acc + %s(acc)) %% %d;" % (f, MOD))
        if kvals and rng.random() < 0.7:
            lines.append("acc = (acc + %s) %% %d;" % (rng.choice(sorted(kvals)), MOD))
        lines.append('print!("checksum ", acc, "\\n");')
        if rng.random() < 0.12:
            # a `main` without a return type: what the program's exit status is then, it is the same
            # however the program is split, ordered and built (the last thing main does is a print, or arithmetic)
            if rng.random() < 0.5:
                lines.append("acc = (acc * 3 + %d) %% %d;" % (rng.randint(1, 9), MOD))
            body, head = _fn("main", "", None, lines)
        else:
            lines.append("return: (acc % 251) as u8")
            body, head = _fn("main", "", "u8", lines)
        P.add(Item("main", "fn", body, head, ("main",)))
    return P.finish()


# ---------------------------------------------------------------- splitting --
LAYOUTS = [
    ["main.pn", "m1.pn", "m2.pn", "m3.pn"],
    ["main.pn", "lib/m1.pn", "lib/m2.pn", "lib/sub/m3.pn"],
    ["src/main.pn", "src/m1.pn", "src/util/m2.pn", "other/m3.pn"],
    ["app.pn", "a/m1.pn", "b/m2.pn", "a/deep/er/m3.pn"],
    # the same base name in two directories: `import "util.pn"` means a
    # different file for includers in different directories
    ["app/main.pn", "lib/util.pn", "app/util.pn", "lib/helper.pn"],
    ["one/main.pn", "two/part.pn", "one/part.pn", "two/sub/part.pn"],
    # the same base name nested below its sibling
    ["app/main.pn", "app/plugins/config.pn", "app/config.pn", "lib/config.pn"],
    # the same name at the root and next to the importer (the root one wins)
    ["app/main.pn", "shared.pn", "app/shared.pn", "app/other.pn"],
    # run from a sub-directory: files of other directories are named `../...`
    # on the command line and in the imports (cwd "app", see CWD_OF_LAYOUT)
    ["main.pn", "../common/util.pn", "../common/deep/m2.pn", "local/m3.pn"],
    # names that differ in case only (they are different files)
    ["app/main.pn", "app/Shapes.pn", "app/shapes.pn", "App/shapes.pn"],
    # long paths (module names are derived from them)
    ["a_rather_long_directory_name/with_another_level/the_main_module_of_the_program.pn",
     "a_rather_long_directory_name/with_another_level/a_helper_module_with_a_long_name.pn",
     "a_rather_long_directory_name/second_helper_module_with_a_long_name.pn",
     "yet_another_quite_long_directory_name/third_helper_module.pn"],
]


CWD_OF_LAYOUT = {"../common/util.pn": "app"}   # second file name -> working directory


class Split:
    def __init__(self, program, assign, files):
        self.program = program
        self.assign = assign      # item name -> module index
        self.files = files        # module index -> file name
        self.k = len(files)
        self.pub = set()
        self.extra_imports = {}   # module -> list of extra module indices (perturbation)
        self.imports = {}         # module index -> sorted list of module indices
        self.import_style = {}    # (includer, includee) -> text used in the import
        self.renames = {}         # module -> {old: new}  (private items only)
        self.dup_imports = set()
        self.extra_pub = set()    # constants marked `pub` although no other module needs them
        self.compute()

    def compute(self):
        P = self.program
        needed = set()
        for it in P.items:
            for d in it.deps:
                if self.assign[d] != self.assign[it.name]:
                    needed.add(d)
        # pub = closure of cross-module needs under exported deps
        pub = set()
        stack = list(needed) + sorted(n for n in getattr(self, "extra_pub", ()) if n in P.by_name)
        while stack:
            x = stack.pop()
            if x in pub:
                continue
            pub.add(x)
            stack.extend(P.by_name[x].xdeps)
        self.pub = pub
        for m in range(self.k):
            own = {it.name for it in P.items if self.assign[it.name] == m}
            need = set()
            for n in own:
                need |= {d for d in P.by_name[n].deps if d not in own}
            seen = set()
            stack = list(need)
            while stack:
                x = stack.pop()
                if x in seen:
                    continue
                seen.add(x)
                stack.extend(P.by_name[x].xdeps)
            mods = ({self.assign[x] for x in seen} | set(self.extra_imports.get(m, []))) - {m}
            # An import splices the *whole* pub interface of the imported
            # module into the importer, so everything that interface names
            # (signature types, member types, named lengths, constant
            # initialisers) has to be importable too -- whether or not the
            # importer uses it. Close the import set under that rule.
            changed = True
            while changed:
                changed = False
                for b in sorted(mods):
                    for it in P.items:
                        if self.assign[it.name] == b and it.name in pub:
                            for d in it.xdeps:
                                t = self.assign[d]
                                if t != m and t not in mods:
                                    mods.add(t)
                                    changed = True
            self.imports[m] = sorted(mods)

    def visible(self, m):
        """The 10-line reference model of visibility: own items plus the pub
        items of directly imported modules."""
        P = self.program
        own = {it.name for it in P.items if self.assign[it.name] == m}
        direct = set(self.imports[m]) | set(self.extra_imports.get(m, []))
        imported = {it.name for it in P.items if self.assign[it.name] in direct and it.name in self.pub}
        return own | imported

    def choose_styles(self, rng):
        import os
        for m in range(self.k):
            for t in list(self.imports[m]) + list(self.extra_imports.get(m, [])):
                root = self.files[t]
                rel = None
                d = os.path.dirname(self.files[m])
                if d and root.startswith(d + "/"):
                    rel = root[len(d) + 1:]
                if rel in self.files:
                    rel = None      # a root-relative key of that name wins in penne
                dup = rel and sum(1 for f in self.files if os.path.basename(f) == os.path.basename(root)) > 1
                if rel and rng.random() < (0.9 if dup else 0.6):
                    self.import_style[(m, t)] = rel
                else:
                    self.import_style[(m, t)] = root

    def module_text(self, m, rng=None):
        P = self.program
        out = []
        targets = list(self.imports[m]) + [t for t in self.extra_imports.get(m, []) if t not in self.imports[m]]
        if rng:
            rng.shuffle(targets)
        for t in targets:
            path = self.import_style.get((m, t), self.files[t])
            out.append('import "%s";\n' % path)
            if (m, t) in self.dup_imports:
                out.append('import "%s";\n' % path)
        items = [it for it in P.items if self.assign[it.name] == m]
        if rng:
            items = items[:]
            rng.shuffle(items)
        text = "".join(out) + "\n" + "\n".join(it.text(it.name in self.pub) for it in items)
        for old, new in self.renames.get(m, {}).items():
            text = rename_ident(text, old, new)
        if not items:
            text += "\n"
        return text

    def file_map(self, rng=None):
        return {self.files[m]: self.module_text(m, rng) for m in range(self.k)}


def rename_ident(text, old, new):
    parts = re.split(r'("(?:[^"\\]|\\.)*")', text)
    for i in range(0, len(parts), 2):
        parts[i] = re.sub(r"\b%s\b" % re.escape(old), new, parts[i])
    return "".join(parts)


LAYOUT_WIDE = ["main.pn", "m1.pn", "lib/m2.pn", "lib/m3.pn", "lib/sub/m4.pn", "util/m5.pn", "util/m6.pn", "m7.pn", "deep/er/m8.pn", "m9.pn"]


def random_split(program, rng, k=None, allow_parent=False, allow_empty=False):
    if k is None:
        k = rng.choice([2, 2, 3, 3, 4])
    names = [it.name for it in program.items]
    k = min(k, len(names))
    layout = rng.choice(LAYOUTS)
    if not allow_parent and layout[1] in CWD_OF_LAYOUT:
        layout = LAYOUTS[1]     # only engines that start penne in a sub-directory may use `../` names
    if k == 4 and rng.random() < 0.4:
        layout = LAYOUTS[4]     # two directories with a `util.pn` each
    elif k >= 3 and rng.random() < 0.2:
        layout = LAYOUTS[6]     # `config.pn` next to `plugins/config.pn`
    if k > 4:
        layout = LAYOUT_WIDE    # many modules: long import chains, diamonds, a module imported by everybody
    files = layout[:k]
    assign = {}
    # every module gets at least one item
    order = names[:]
    rng.shuffle(order)
    for m in range(k):
        assign[order[m]] = m
    for n in order[k:]:
        assign[n] = rng.randrange(k)
    # bias: separate a struct from one of its users, a length constant from an
    # array type that names it, and two print users from each other
    for it in program.items:
        if it.kind == "fn" and rng.random() < 0.35:
            cands = sorted(d for d in it.deps if program.by_name[d].kind in ("struct", "word", "const"))
            if cands:
                d = rng.choice(cands)
                if assign[d] == assign[it.name]:
                    assign[d] = (assign[d] + 1 + rng.randrange(k - 1)) % k if k > 1 else 0
    users = {}
    for it in program.items:
        for d in it.deps:
            users.setdefault(d, set()).add(it.name)
    for it in program.items:
        if it.kind == "fn" and len(users.get(it.name, ())) == 1 and rng.random() < 0.6:
            (u,) = users[it.name]
            assign[it.name] = assign[u]
    # make sure no module went empty through the bias moves
    for m in range(k):
        if m not in assign.values():
            donor = max(range(k), key=lambda x: sum(1 for v in assign.values() if v == x))
            victim = rng.choice([n for n in names if assign[n] == donor])
            assign[victim] = m
    empty = None
    if allow_empty and k >= 3 and rng.random() < 0.1:
        # a module without any declaration, given on the command line and
        # (mostly) imported by another module
        empty = rng.randrange(k)
        for n in names:
            if assign[n] == empty:
                assign[n] = (empty + 1 + rng.randrange(k - 1)) % k
    sp = Split(program, assign, files)
    if empty is not None and rng.random() < 0.8:
        sp.extra_imports.setdefault(rng.choice([m for m in range(k) if m != empty]), []).append(empty)
        sp.compute()
    # gratuitous `pub`: constants exported although nobody outside needs them
    # (legal, must not change anything). Drawn from a stream of its own, so
    # that everything else generated from a seed stays what it was.
    own = random.Random("extra_pub:%r" % sorted(assign.items()))
    if own.random() < 0.4:
        sp.extra_pub = {it.name for it in program.items if it.kind == "const" and own.random() < 0.6}
        sp.compute()
    sp.choose_styles(rng)
    return sp


def perturb(split, rng, other=None):
    """Apply behaviour-preserving perturbations in place; returns their names."""
    applied = []
    P = split.program
    k = split.k
    # same name for private items of the same kind in different modules
    prints_struct_names = any(re.search(r'print!\("#\w+ ", s, ', it.body) for it in P.items)
    for kind, newname in (("fn", "helper"), ("const", "LIMIT"), ("table", "TABLE"), ("struct", "Node")):
        if kind == "struct" and prints_struct_names:
            rng.random()
            continue    # the program prints structure names: renaming one would change its output
        if rng.random() < 0.5:
            per_mod = {}
            for it in P.items:
                want = "const" if kind == "table" else kind
                if it.kind == want and it.name not in split.pub and it.name != "main":
                    if kind == "const" and not it.body.startswith("const %s: i32" % it.name):
                        continue
                    if kind == "table" and not it.body.startswith("const %s: [" % it.name):
                        continue
                    if kind == "fn" and it.body.rstrip().endswith(";"):
                        continue
                    per_mod.setdefault(split.assign[it.name], []).append(it.name)
            mods = [m for m in per_mod]
            if len(mods) >= 2:
                for m in mods:
                    split.renames.setdefault(m, {})[rng.choice(sorted(per_mod[m]))] = newname
                applied.append("same_private_%s" % kind)
    if k >= 2 and rng.random() < 0.3:
        a, b = rng.sample(range(k), 2)
        for x, y in ((a, b), (b, a)):
            if y not in split.imports[x]:
                split.extra_imports.setdefault(x, []).append(y)
        applied.append("cyclic_import")
        split.compute()
        split.choose_styles(rng)
    if rng.random() < 0.3:
        pairs = [(m, t) for m in range(k) for t in split.imports[m]]
        if pairs:
            split.dup_imports.add(rng.choice(pairs))
            applied.append("duplicate_import")
    if rng.random() < 0.4:
        # a private constant that has the name of a function of its own module or
        # of an imported one (constants and functions live in separate name spaces)
        cands = []
        for it in P.items:
            if it.kind == "const" and it.name not in split.pub and it.body.startswith("const %s: i32" % it.name):
                m = split.assign[it.name]
                taken = split.renames.get(m, {})
                if it.name in taken:
                    continue
                vis = split.visible(m)
                fns = sorted(f.name for f in P.items if f.kind == "fn" and f.name != "main" and f.name not in taken and
                             f.name not in taken.values() and (split.assign[f.name] == m or f.name in vis))
                if fns:
                    cands.append((m, it.name, fns))
        if cands:
            m, c, fns = rng.choice(cands)
            imported = [f for f in fns if split.assign[f] != m]
            split.renames.setdefault(m, {})[c] = rng.choice(imported if imported and rng.random() < 0.6 else fns)
            applied.append("const_named_like_fn")
    return applied


def extra_module(rng, prefix="x"):
    """An unrelated module nobody imports: a few functions (some pub), constants
    and structures, with names disjoint from the main program's."""
    P = generate(rng, prefix=prefix, n_funcs=rng.randint(2, 5), with_main=False)
    pubs = {it.name for it in P.items if rng.random() < 0.3}
    stack = list(pubs)
    closed = set()
    while stack:
        x = stack.pop()
        if x in closed:
            continue
        closed.add(x)
        stack.extend(P.by_name[x].xdeps)
    return "\n".join(it.text(it.name in closed) for it in P.items)


def twin_module(prog, rng):
    """The "evil twin": a module nobody imports that declares, all private, the
    very same names as the program (constants, tables, structures, functions)
    with different contents: table elements and i32 constants changed, every
    structure given another layout. Lengths (usize constants) are kept, so the
    twin's tables have the same *type* as the originals."""
    out = []
    r = rng.random()
    longer = r < 0.4      # variant: other array lengths too
    # variant: the twin's constants are `pub` (nobody imports the twin, so they
    # still concern no other module); decided from the same draw as `longer`,
    # so that programs generated from a seed stay what they were
    pub_consts = int(r * 1000) % 2 == 0
    bumped = set()
    for it in prog.items:
        if it.name in ("main", "abs"):
            continue
        body = it.body
        if longer and it.kind == "const" and re.match(r"const \w+: usize = \d+;", body):
            body = re.sub(r"= (\d+);", lambda m: "= %d;" % (int(m.group(1)) + 1), body)
            bumped.add(it.name)
        elif it.kind == "const":
            if body.startswith("const %s: [" % it.name):
                body = re.sub(r"\[([0-9, ]+)\];", lambda m: "[%s];" % ", ".join(
                    [str((int(x) + 1 + i) % 10) for i, x in enumerate(m.group(1).split(", "))] + (["7"] if longer else [])), body)
            elif ": i32 = " in body:
                body = re.sub(r"(= |\+ )(\d+);", lambda m: "%s%d;" % (m.group(1), int(m.group(2)) + 1), body)
            # structure-typed constants: the twin's structures have one more
            # member (a literal that omits a member makes penne emit invalid IR
            # for the constant - a single-module defect outside C12)
            body = re.sub(r"\b(\w*S\d+ \{ )", r"\1zz: 1, ", body)
            if longer and not body.startswith("const %s: [" % it.name):
                # array members of structure constants grow with their lengths
                body = re.sub(r"\[([0-9, ]+)\]", lambda m: "[%s, 7]" % m.group(1), body)
        elif it.kind == "struct":
            body = body.replace("{\n", "{\n\tzz: u8,\n", 1)
        elif it.kind == "fn":
            body = re.sub(r"%% %d" % MOD, "%% %d" % (MOD - 1), body)
        if pub_consts and it.kind == "const" and body.startswith("const "):
            body = "pub " + body
        out.append(body)
    # keep the twin's globals alive: a pub (externally visible, never called) function reads them
    terms = []
    for it in prog.items:
        if it.kind == "const" and re.match(r"const \w+: \[\w+\]i32 = ", it.body):
            terms.append("%s[i]" % it.name)     # run-time index: goes through the global
        elif it.kind == "const" and ": i32" in it.body:
            terms.append(it.name)
    if terms:
        out.append("pub fn zz_twin_probe(i: usize) -> i32\n{\n\treturn: %s\n}\n" % " + ".join(terms))
    rng.shuffle(out)
    return "\n".join(out)


def negative_variants(split, rng, limit=None):
    """References that must be rejected: from module A to an item that is not
    in visible(A). Returns list of dicts(module, item, reason, files, expect)."""
    P = split.program
    out = []
    for m in range(split.k):
        vis = split.visible(m)
        direct = set(split.imports[m]) | set(split.extra_imports.get(m, []))
        for it in P.items:
            if it.name in vis or it.name == "main":
                continue
            owner = split.assign[it.name]
            renamed = split.renames.get(owner, {}).get(it.name)
            if renamed:
                continue
            if it.name not in split.pub:
                reason = "private"
            elif owner not in direct:
                reason = "transitive" if any(owner in split.imports[d] for d in direct) else "not_imported"
            else:
                continue
            probe, code = probe_for(it, rng.randrange(5))
            if probe is None:
                continue
            out.append({"module": m, "item": it.name, "kind": it.kind, "reason": reason,
                        "probe": probe, "expect_code": code})
    # imports that must stay unresolved: the bare name of a file that only
    # exists in another directory (never next to the includer, never at the root)
    import os
    for m in range(split.k):
        d = os.path.dirname(split.files[m])
        for t in range(split.k):
            base = os.path.basename(split.files[t])
            if t == m or base in split.files:
                continue
            sibling = os.path.join(d, base) if d else base
            if sibling in split.files:
                continue
            out.append({"module": m, "item": base, "kind": "import", "reason": "unresolvable_import",
                        "probe": None, "import_line": 'import "%s";\n' % base, "expect_code": 470})
            break
    if limit is not None and len(out) > limit:
        keep_imports = [x for x in out if x["kind"] == "import"][:1]
        rest = [x for x in out if x["kind"] != "import"]
        out = rng.sample(rest, min(len(rest), limit - len(keep_imports))) + keep_imports
    return out


def probe_for(it, variant=0):
    """A reference to `it` from outside, and the code its rejection carries.
    `variant` picks the position of the reference: a leak may exist for one
    kind of position only (a type in a size-of, an array length, a member
    type, a constant's initialiser ...)."""
    if it.kind == "fn":
        sig = it.sig
        call = None
        if sig[0] in ("ii_i", "mut_pair"):
            call = "%s(1, 2)" % it.name
        elif sig[0] == "i_i":
            call = "%s(1)" % it.name
        elif sig[0] == "flag":
            call = "%s(true, 2)" % it.name
        if call:
            if variant == 1:
                return "fn zz_probe() -> i32\n{\n\tvar x = 1 + %s;\n\treturn: x\n}\n" % call, 401
            if variant == 2:
                return "fn zz_probe() -> i32\n{\n\tvar a: [3]i32 = [1, %s, 3];\n\treturn: a[1]\n}\n" % call, 401
            if variant == 3:
                return "fn zz_probe()\n{\n\t%s;\n}\n" % call, 401
            return "fn zz_probe() -> i32\n{\n\treturn: %s\n}\n" % call, 401
        if sig[0] == "print_v":
            return "fn zz_probe()\n{\n\t%s(1);\n}\n" % it.name, 401
        if sig[0] == "ptr_v":
            return "fn zz_probe()\n{\n\tvar t: i32 = 1;\n\t%s(&t, 2);\n}\n" % it.name, 401
        if sig[0] == "slice_i":
            return "fn zz_probe() -> i32\n{\n\tvar t: [2]i32 = [1, 2];\n\treturn: %s(t)\n}\n" % it.name, 401
        if sig[0] == "arrmut":
            return "fn zz_probe()\n{\n\tvar t: [2]i32 = [1, 2];\n\t%s(&t);\n}\n" % it.name, 401
        return None, None
    if it.kind == "const":
        m = re.match(r"const \w+: (\[?[^=]*?) = ", it.head)
        if not m:
            return None, None
        ty = m.group(1).strip()
        if ty.startswith("["):
            if variant in (1, 3):
                return "fn zz_probe() -> usize\n{\n\treturn: |%s|\n}\n" % it.name, 402
            return "fn zz_probe() -> i32\n{\n\treturn: %s[0]\n}\n" % it.name, 402
        if variant == 1:
            return "const ZZ_PROBE: %s = %s;\n" % (ty, it.name), 402
        if ty == "i32" and variant in (2, 3):
            # the right operand of an operator in a constant that another constant builds on
            return "const ZZ_PROBE: i32 = 1 + %s;\nconst ZZ_PROBE2: i32 = ZZ_PROBE;\n" % it.name, 402
        if ty == "usize" and variant == 2:
            return "fn zz_probe(a: [%s]i32)\n{\n}\n" % it.name, 402
        if ty == "usize" and variant == 3:
            return "struct ZzProbe\n{\n\tinner: [%s]i32,\n}\n" % it.name, 402
        if ty == "usize" and variant == 4:
            return "const ZZ_PROBE: [%s]i32 = [1];\n" % it.name, 402
        return "fn zz_probe() -> %s\n{\n\treturn: %s\n}\n" % (ty, it.name), 402
    if it.kind in ("struct", "word"):
        if variant == 1:
            return "fn zz_probe() -> usize\n{\n\treturn: |:%s|\n}\n" % it.name, 405
        if variant == 2:
            return "struct ZzProbe\n{\n\tinner: %s,\n}\n" % it.name, 405
        if variant == 3:
            return "fn zz_probe()\n{\n\tvar s: %s;\n}\n" % it.name, 405
        if variant == 4:
            return "fn zz_probe()\n{\n\tvar a: [2]%s;\n}\n" % it.name, 405
        return "fn zz_probe(p: &%s)\n{\n}\n" % it.name, 405
    return None, None


# ------------------------------------------------ structures (for shrinking) --
def item_to_json(it):
    return {"name": it.name, "kind": it.kind, "body": it.body, "head": it.head, "sig": list(it.sig) if it.sig else None}


def program_from_json(items):
    P = Program()
    for d in items:
        P.add(Item(d["name"], d["kind"], d["body"], d["head"], tuple(d["sig"]) if d.get("sig") else None))
    return P.finish()


def split_to_json(sp, item_order=None):
    return {"items": [item_to_json(it) for it in sp.program.items], "assign": dict(sp.assign), "files": list(sp.files),
            "extra_imports": {str(k): list(v) for k, v in sp.extra_imports.items()},
            "renames": {str(k): dict(v) for k, v in sp.renames.items()},
            "dup_imports": [list(x) for x in sorted(sp.dup_imports)],
            "extra_pub": sorted(getattr(sp, "extra_pub", ())),
            "styles": {"%d,%d" % k: v for k, v in sp.import_style.items()},
            "item_order": item_order or {}}


def split_from_json(d):
    P = program_from_json(d["items"])
    sp = Split.__new__(Split)
    sp.program = P
    sp.assign = {k: v for k, v in d["assign"].items() if k in P.by_name}
    sp.files = list(d["files"])
    sp.k = len(sp.files)
    sp.pub = set()
    sp.extra_imports = {int(k): list(v) for k, v in d.get("extra_imports", {}).items()}
    sp.imports = {}
    sp.import_style = {}
    sp.renames = {int(k): {a: b for a, b in v.items() if a in P.by_name} for k, v in d.get("renames", {}).items()}
    sp.dup_imports = set()
    sp.extra_pub = {n for n in d.get("extra_pub", []) if n in P.by_name}
    sp.compute()
    for key, v in d.get("styles", {}).items():
        a, b = key.split(",")
        sp.import_style[(int(a), int(b))] = v
    for a, b in d.get("dup_imports", []):
        if b in sp.imports.get(a, []):
            sp.dup_imports.add((a, b))
    return sp


def ordered_file_map(sp, item_order):
    """file_map with a recorded (not random) order of items per module."""
    out = {}
    P = sp.program
    for m in range(sp.k):
        order = [n for n in item_order.get(str(m), []) if n in P.by_name and sp.assign.get(n) == m]
        rest = [it.name for it in P.items if sp.assign[it.name] == m and it.name not in order]
        names = order + rest
        imports = []
        repeats = []
        for t in list(sp.imports[m]):
            path = sp.import_style.get((m, t), sp.files[t])
            imports.append('import "%s";\n' % path)
            if (m, t) in sp.dup_imports:
                repeats.append('import "%s";\n' % path)
        imports += repeats      # a repeated import comes after the other imports, not next to its twin
        late = item_order.get("late_imports", {}).get(str(m), 0)
        bodies = [P.by_name[n].text(n in sp.pub) for n in names]
        if late and imports and bodies:
            # `import` is a declaration like any other: the last `late` of them
            # stand below the module's first own declaration
            late = min(late, len(imports))
            head, tail = imports[:len(imports) - late], imports[len(imports) - late:]
            text = "".join(head) + "\n" + bodies[0] + "\n" + "".join(tail) + "\n" + "\n".join(bodies[1:])
        else:
            text = "".join(imports) + "\n" + "\n".join(bodies)
        for old, new in sp.renames.get(m, {}).items():
            text = rename_ident(text, old, new)
        if not names:
            text += "\n"
        out[sp.files[m]] = text
    return out


def drop_items(items, removed):
    """Remove the named items, everything that depends on them (transitively),
    and the lines of `main` that mention them (or locals those lines declared)."""
    P = program_from_json(items)
    removed = set(removed) - {"main"}
    changed = True
    while changed:
        changed = False
        for it in P.items:
            if it.name not in removed and it.name != "main" and it.deps & removed:
                removed.add(it.name)
                changed = True
    out = []
    for d in items:
        if d["name"] in removed:
            continue
        if d["name"] == "main":
            d = dict(d)
            d["body"] = filter_main(d["body"], removed)
        out.append(d)
    return out


def filter_main(body, removed):
    lines = body.split("\n")
    dead_locals = set()
    out = []
    for line in lines:
        words = set(IDENT.findall(strip_strings(line)))
        if words & removed or words & dead_locals:
            m = re.match(r"\s*var (\w+)", line)
            if m:
                dead_locals.add(m.group(1))
            continue
        out.append(line)
    return "\n".join(out)
